PROPERTY = "C09"
PACKAGES = ["./aggsender/flows"]
F = "github.com/agglayer/aggkit/aggsender/flows."
OBLIGATIONS = []
for nl, nc, fin, ml, gifull, mainnet, tiers in (
        (2, 1, 0, 0, 1, 1, ("quick", "thorough")), (2, 1, 0, 0, 1, 0, ("quick", "thorough")), (2, 1, 1, 3, 1, 0, ("quick", "thorough")), (3, 2, 1, 0, 1, 0, ("quick", "thorough")),
        (3, 2, 2, 0, 1, 1, ("quick", "thorough")), (2, 1, 1, 0, 0, 0, ("thorough",)), (3, 1, 2, 40, 1, 0, ("thorough",)), (4, 2, 3, 1, 1, 1, ("thorough",)), (3, 2, 2, 2, 0, 0, ("thorough",))):
    OBLIGATIONS.append(dict(
        name="C09 %d L1 info leaves, %d %s claim(s)%s against the first leaves, finalized block covers %d leaf/leaves (claim metadata %d bytes): every imported exit verifies against the named L1 info root"
             % (nl, nc, "mainnet" if mainnet else "rollup", "" if gifull else " (any global index incl. short encodings)", fin + 1, ml),
        harness=F + "ZZVerif_C09_ClaimProofs", params={"NL": nl, "NC": nc, "FIN": fin, "ML": ml, "GIFULL": gifull, "MAINNET": mainnet}, tiers=tiers, reach=["built"], time_limit_s=3000,
        bounds="all exit fields, global indexes (mainnet / rollup), all 64 proof siblings per claim, all L1 leaf contents; syncer behind / level / ahead of the finalized block, "
               "same or another fork"))
ASSUMPTIONS = ["the L1 info tree syncer answers as C08/C11 establish for the real one (fake in the harness: proofs computed by a reference Merkle routine)",
               "each claim was accepted by the L2 bridge contract (its proofs lead to the exit roots of the L1 info leaf whose global exit root it names)",
               "Keccak as uninterpreted function; global exit roots pairwise distinct", "block hash as uninterpreted function of the header"]
OUTSIDE = "claims against roots above the finalized one (excluded by the property: the oracle injects finalized roots only); the aggchain-prover flow"
