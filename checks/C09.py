PROPERTY = "C09"
PACKAGES = ["./aggsender/flows"]
F = "github.com/agglayer/aggkit/aggsender/flows."
OBLIGATIONS = []
CASES = [
    # NL NC FIN ML GIFULL MAINNET SYMIDX LIDX RIDX tiers
    (2, 1, 0, 0, 1, 1, 1, 0, 0, ("quick", "thorough")),
    (2, 1, 0, 0, 1, 0, 1, 0, 0, ("quick", "thorough")),
    (2, 1, 1, 3, 1, 0, 0, 0xfffffffe, 7, ("quick", "thorough")),
    (3, 2, 1, 0, 1, 0, 0, 0, 0, ("quick", "thorough")),
    (3, 2, 2, 0, 1, 1, 0, 0x12345678, 3, ("thorough",)),
    (3, 2, 2, 2, 1, 0, 0, 0x80000000, 0x7ffffff0, ("thorough",)),
    (2, 1, 1, 0, 0, 0, 0, 3, 1, ("thorough",)),
    (3, 1, 2, 40, 1, 0, 1, 0, 0, ("thorough",)),
    (4, 2, 3, 1, 1, 1, 0, 1, 1, ("thorough",)),
]
for nl, nc, fin, ml, gifull, mainnet, symidx, lidx, ridx, tiers in CASES:
    OBLIGATIONS.append(dict(
        name="C09 %d L1 info leaves, %d %s claim(s)%s, tree positions %s, finalized block covers %d leaf/leaves (claim metadata %d bytes): every imported exit verifies against the named L1 info root"
             % (nl, nc, "mainnet" if mainnet else "rollup", "" if gifull else " (short global index encodings allowed)",
                "symbolic" if symidx else "leaf 0x%x+5k / rollup 0x%x+k" % (lidx, ridx), fin + 1, ml),
        harness=F + "ZZVerif_C09_ClaimProofs",
        params={"NL": nl, "NC": nc, "FIN": fin, "ML": ml, "GIFULL": gifull, "MAINNET": mainnet, "SYMIDX": symidx, "LIDX": lidx, "RIDX": ridx},
        tiers=tiers, reach=["built"], time_limit_s=3000,
        bounds="all exit fields, all 64 proof siblings per claim, all L1 leaf contents; syncer behind / level / ahead of the finalized block, same or another fork"))
for _nl, _t in ((3, ("quick", "thorough")), (4, ("thorough",))):  # 5 leaves: does not finish in 1500 s on a loaded machine
    OBLIGATIONS.append(dict(
        name="C09 the same querier proves exit roots against two successive L1 info roots of a %d-leaf tree (possibly the same exit root twice): each proof verifies against the root asked for" % _nl,
        harness=F + "ZZVerif_C09_TwoRoots", params={"NL": _nl}, tiers=_t, reach=["both", "same exit root twice"], time_limit_s=1500,
        bounds="every pair of roots (a < b), every pair of leaves under them, all leaf contents"))
for _nl, _t in ((3, ("quick", "thorough")), (5, ("thorough",))):
    OBLIGATIONS.append(dict(
        name="C09 the same querier asked twice for the latest finalized L1 info root of a %d-leaf tree while the syncer catches up: each answer reflects the state at the time of the question" % _nl,
        harness=F + "ZZVerif_C09_FinalizedRootTwice", params={"NL": _nl}, tiers=_t, reach=["both"], time_limit_s=1500,
        bounds="every non-decreasing pair of finalized blocks and of processed blocks, all leaf contents"))
ASSUMPTIONS = ["the L1 info tree syncer answers as C08/C11 establish for the real one (fake in the harness: proofs computed by a reference Merkle routine)",
               "each claim was accepted by the L2 bridge contract (its proofs lead to the exit roots of the L1 info leaf whose global exit root it names)",
               "Keccak as uninterpreted function; global exit roots pairwise distinct", "block hash as uninterpreted function of the header"]
OUTSIDE = "claims against roots above the finalized one (excluded by the property: the oracle injects finalized roots only); the aggchain-prover flow"
