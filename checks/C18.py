PROPERTY = "C18"
PACKAGES = ["./aggsender"]
A = "github.com/agglayer/aggkit/aggsender."
OBLIGATIONS = [
    dict(name="C18.a step lemma, symbolic epoch length: event iff first qualifying block of its epoch; event epoch = block epoch; "
              "epochs strictly increase; invariant preserved",
         harness=A + "ZZVerif_C18_Step", params={"N": 0}, arith="int", reach=["event", "noevent"],
         bounds="all epoch lengths N in [1,2^32), all S,last,b < 2^40 with b > last >= S >= 1 (arbitrary gaps), all pct 0..99, any state "
                "satisfying the invariant; integer encoding with explicit wrap-around, float64 operations as exact rationals "
                "(justified by C18.c and the exactness argument in DESIGN.md)"),
    dict(name="C18.b stale block (not newer than the last seen, or before the first epoch): no event, state unchanged",
         harness=A + "ZZVerif_C18_Stale", params={"N": 0}, arith="int", bounds="all N in [1,2^32), all S,last,b,waiting"),
]
for _n, _tiers in ((1, ("quick", "thorough")), (2, ("quick", "thorough")), (3, ("quick", "thorough")), (5, ("quick", "thorough")),
                   (4, ("thorough",)), (6, ("thorough",)), (7, ("thorough",)), (8, ("thorough",)), (10, ("thorough",)), (12, ("thorough",)),
                   (16, ("thorough",)), (25, ("thorough",)), (32, ("thorough",))):
    OBLIGATIONS.append(dict(
        name="C18.c IEEE-754 float64 threshold test of the real code == exact integer specification, N=%d" % _n,
        harness=A + "ZZVerif_C18_FloatKernel", params={"N": _n, "S": 5}, tiers=_tiers, reach=["need"] + (["noneed"] if _n > 1 else []),
        bounds="epoch length %d, S=5, every block of the first three epochs, all pct 0..99, any waitingForEpoch; bit-vector + IEEE float64 theory" % _n))
SOLVER_TIMEOUT_S = {"quick": 300, "thorough": 1800}
TIME_LIMIT_S = {"quick": 900, "thorough": 7200}
ASSUMPTIONS = [
    "block numbers < 2^40",
    "representation invariant: waitingForEpoch = (greatest epoch with a qualifying block seen)+1 <= epoch(lastBlockSeen)+1",
    "C18.a/b: float64(x)/float64(N) compared with float64(p)/100 is order-exact for x < N < 2^32 (correctly rounded division, "
    "distinct quotients differ by >= 1/(100N) > 2^-52); C18.c decides the same comparison in IEEE semantics for small N",
    "logger calls are no-ops",
]
OUTSIDE = "N >= 2^32; goroutine/channel delivery of blocks; the configured starting block itself delivered as the first block (initial state marks it as seen)"
