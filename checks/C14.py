import re
PROPERTY = "C14"
PACKAGES = ["./bridgesync", "./l1infotreesync"]
OBLIGATIONS = [
    dict(name="C14.a bridge syncer: deposit-count gap halts; every data query refuses; reorg clears iff it removes a block",
         harness="github.com/agglayer/aggkit/bridgesync.ZZVerif_C14_Bridge", reach=["unhalted", "stillhalted"],
         bounds="any gap value != 1, any query arguments, any reorg block"),
    dict(name="C14.b L1 info syncer: mismatching root announcement halts; every data query refuses; reorg clears iff it removes a block",
         harness="github.com/agglayer/aggkit/l1infotreesync.ZZVerif_C14_L1Info", reach=["unhalted", "stillhalted"],
         bounds="any announced (root, count) != (actual root, 1), any query arguments, any reorg block"),
]
for _rb in (1, 2):
    for _t, _tn in enumerate(["block", "root"]):
        OBLIGATIONS.append(dict(name="C14.c bridge syncer halted, reorg from block %d while deletes on table %s fail: error, nothing removed, still halted; clean retry clears" % (_rb, _tn),
                                harness="github.com/agglayer/aggkit/bridgesync.ZZVerif_C14_BridgeFailedReorg", params={"RB": _rb, "T": _t}, reach=["end"],
                                tiers=("quick", "thorough") if _rb == 2 else ("thorough",), bounds="two committed blocks with one bridge each, any gap value, all field values"))
    for _t, _tn in enumerate(["block", "l1_info_root", "rollup_exit_root"]):
        OBLIGATIONS.append(dict(name="C14.c L1 info syncer halted, reorg from block %d while deletes on table %s fail: error, nothing removed, still halted; clean retry clears" % (_rb, _tn),
                                harness="github.com/agglayer/aggkit/l1infotreesync.ZZVerif_C14_L1InfoFailedReorg", params={"RB": _rb, "T": _t}, reach=["end"],
                                tiers=("quick", "thorough") if _rb == 2 else ("thorough",), bounds="two committed blocks with an info update and a verified exit root each, all field values"))
# entry points that are not data queries of the syncer's own store (with the reason)
NOT_DATA_QUERIES = {
    "*github.com/agglayer/aggkit/bridgesync.BridgeSync": {
        "Start": "runs the driver, does not return", "OriginNetwork": "configuration getter", "BlockFinality": "configuration getter",
        "GetLastReorgEvent": "reads the reorg detector's table, not syncer data"},
    "*github.com/agglayer/aggkit/l1infotreesync.L1InfoTreeSync": {"Start": "runs the driver, does not return"},
}


def PRECHECK(ir, harness_sources):
    """every exported method of the two syncers (enumerated from the type information of the CURRENT tree) must either be
    called by the harness or be listed above; an entry point added later makes the check inconclusive until it is covered"""
    problems = []
    for tid, skip in NOT_DATA_QUERIES.items():
        ms = ir.methods.get(tid, {})
        if not ms:
            problems.append("method set of %s not found" % tid)
        for m in sorted(ms):
            if not m[0].isupper() or m in skip:
                continue
            if not re.search(r"\bs\.%s\(" % re.escape(m), harness_sources):
                problems.append("exported entry point %s.%s is not covered by the C14 harness" % (tid, m))
    return problems


ASSUMPTIONS = ["the halted state is reached through the real ProcessBlock (deposit-count gap / announced-root mismatch)", "SQL model of SQLite"]
OUTSIDE = "goroutine interleaving between a query and the halting block; driver behaviour on ErrInconsistentState (C05/C06)"
