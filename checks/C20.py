PROPERTY = "C20"
PACKAGES = ["./bridgesync"]
B = "github.com/agglayer/aggkit/bridgesync."
OBLIGATIONS = []


def _shapes(nf):
    """all parent vectors: parent[0] = 0, parent[i] in [0, i-1]"""
    out = [[0]]
    for i in range(1, nf):
        out = [p + [q] for p in out for q in range(i)]
    return out


def _enc(par, nf):
    v = 0
    for d in reversed(par):
        v = v * nf + d
    return v


for nf, tiers in ((1, ("quick", "thorough")), (2, ("quick", "thorough")), (3, ("quick", "thorough")), (4, ("thorough",))):
    for par in _shapes(nf):
      for pre in (0, 1):
        OBLIGATIONS.append(dict(
            name="C20 call tree with %d frame(s), parents %s, %s contract: recorded details come from a matching, non-reverted call to the bridge; none => error, nothing recorded" % (nf, par, "pre-etrog" if pre else "etrog"),
            harness=B + "ZZVerif_C20_ClaimCalldata", params={"NF": nf, "SHAPE": _enc(par, nf), "PRE": pre, "MIXED": 0}, tiers=tiers, reach=["none"] + (["found"] if nf >= 1 else []),
            time_limit_s=3000, max_paths=400000,
            bounds="tree shape fixed; per frame: reverted or not, to the bridge or not, asset/message claim, event's global index or another; both contract generations; all field values"))
for nf, tiers in ((1, ("quick", "thorough")), (2, ("quick", "thorough")), (3, ("thorough",))):
    for par in _shapes(nf):
        OBLIGATIONS.append(dict(
            name="C20 call tree with %d frame(s), parents %s, event of the etrog contract, calls of either contract generation (a 32-bit index matches only an event index that fits)" % (nf, par),
            harness=B + "ZZVerif_C20_ClaimCalldata", params={"NF": nf, "SHAPE": _enc(par, nf), "PRE": 0, "MIXED": 1}, tiers=tiers, reach=["none", "found"],
            time_limit_s=3000, max_paths=400000, bounds="as above, four call kinds per bridge frame"))
ASSUMPTIONS = ["ABI encoding/decoding is an abstract constructor/destructor pair (go-ethereum's packer natively, Arguments.Unpack modelled); "
               "every call addressed to the bridge is a claim call (stated in the property)", "the RPC client is a fake returning the prepared trace"]
OUTSIDE = "go-ethereum's ABI decoder; JSON decoding of the trace; more than 4 frames"
