PROPERTY = "C12"
PACKAGES = ["./bridgeservice", "./internal/zzverifhttp"]
B = "github.com/agglayer/aggkit/bridgeservice."
OBLIGATIONS = []
for n, mb, tiers in ((3, 4, ("quick", "thorough")), (4, 6, ("quick", "thorough")), (5, 8, ("thorough",)), (4, 12, ("thorough",))):
    for side in ("L1", "L2"):
        OBLIGATIONS.append(dict(
            name="C12.b %s bridge: %d L1 info updates in blocks 1..%d (several per block allowed): the index lookup returns a covering index, and fails iff none covers the deposit" % (side, n, mb),
            harness=B + "ZZVerif_C12_Index" + side, params={"N": n, "MAXBLK": mb}, tiers=tiers, reach=["found", "notcovered"], time_limit_s=900 if "quick" in tiers else 3000,
            bounds="%d updates, every non-decreasing placement in blocks 1..%d, every non-decreasing last-deposit index (8 bit), every deposit count (8 bit)%s" % (
                n, mb, "; updates that leave the mainnet exit root unchanged" if side == "L1" else "")))
for net, q, idx, dc, tiers in ((2, 0, 1, 1, ("quick", "thorough")), (2, 2, 1, 0, ("quick", "thorough")), (2, 2, 0, 1, ("quick", "thorough")), (2, 3, 1, 0, ("quick", "thorough")),
                               (1, 1, 1, 1, ("thorough",)), (3, 3, 0, 0, ("thorough",)), (2, 0, 0, 0, ("thorough",)), (2, 0, 0, 1, ("thorough",)), (2, 2, 2, 0, ("thorough",)),
                               (3, 0, 1, 0, ("thorough",)), (1, 1, 0, 0, ("thorough",)), (2, 2, 1, 1, ("thorough",))):
    cov = idx < 2 and dc <= idx and q in (0, net)
    OBLIGATIONS.append(dict(
        name="C12.a claim proof through the real handler: node of network %d asked for network %d, L1 info leaf %d, deposit %d (%s)" % (
            net, q, idx, dc, "covered: both proofs verify" if cov else "not covered: error answer"),
        harness=B + "ZZVerif_C12_ClaimProof", params={"NET": net, "Q": q, "IDX": idx, "DC": dc}, tiers=tiers,
        reach=[("mainnet" if q == 0 else "rollup") if cov else "refused"], time_limit_s=3000,
        bounds="exit trees of 3 arbitrary leaves each, two L1 info leaves with arbitrary contents, rollup exit tree with arbitrary neighbours; request parameters concrete"))
for net, q, idx, mask, tiers in ((2, 0, 2, 0b0000, ("quick", "thorough")), (2, 2, 1, 0b1101, ("quick", "thorough")), (2, 2, 3, 0b0111, ("quick", "thorough")),
                                 (2, 0, 4, 0b1111, ("thorough",)), (2, 2, 0, 0b0001, ("thorough",)), (3, 2, 0, 0b1111, ("thorough",)), (1, 1, 2, 0b0100, ("thorough",)),
                                 (2, 2, 2, 0b1000, ("thorough",))):
    OBLIGATIONS.append(dict(
        name="C12.c injected L1 info leaf through the real handler: node of network %d asked for network %d, index %d, injected indexes %s" % (
            net, q, idx, [j for j in range(4) if mask >> j & 1]),
        harness=B + "ZZVerif_C12_InjectedLeaf", params={"NET": net, "Q": q, "IDX": idx, "MASK": mask}, tiers=tiers, time_limit_s=1500,
        bounds="four L1 info leaves with arbitrary contents; request parameters concrete"))
for net, q, dc, tiers in ((2, 0, 3, ("quick", "thorough")), (2, 2, 3, ("quick", "thorough")), (2, 3, 0, ("quick", "thorough")), (1, 1, 0, ("thorough",)), (3, 0, 200, ("thorough",)),
                          (3, 3, 255, ("thorough",)), (2, 2, 1, ("thorough",))):
    OBLIGATIONS.append(dict(
        name="C12.d /l1-info-tree-index through the real handler: node of network %d asked for network %d, deposit %d: a covering index or an error" % (net, q, dc),
        harness=B + "ZZVerif_C12_IndexHandler", params={"NET": net, "Q": q, "DC": dc}, tiers=tiers,
        reach=["foreign"] if q not in (0, net) else (["found"] if dc == 0 else ["found", "notcovered"]), time_limit_s=900,
        bounds="two L1 info updates in blocks 1..4, every non-decreasing last-deposit index per network (8 bit); request parameters concrete"))
ASSUMPTIONS = ["the L1 info syncer and the bridge syncers answer as C01/C08/C11 establish for the real ones (fakes in the harness: lookups over ordered lists)",
               "exit roots are distinct tags; the deposit index of an exit root is the index of the last leaf it contains",
               "L2: every rollup exit root produced by a verify-batches event is carried by an L1 info leaf (the protocol assumption stated in the code)"]
ASSUMPTIONS.append("C12.a: gin is reduced to query parameters in and the object handed to c.JSON out (natively a test context and the decoded JSON body); metrics are no-ops")
OUTSIDE = "routing, JSON rendering and symbolic request strings; block numbers above the stated bound (the binary search is bounded by log2 of the block span)"
