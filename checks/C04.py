PROPERTY = "C04"
PACKAGES = ["./bridgesync"]
B = "github.com/agglayer/aggkit/bridgesync."
OBLIGATIONS = []
for n, f, bs, tiers in ((2, 1, range(0, 5), ("quick", "thorough")), (3, 2, range(0, 6), ("thorough",))):
  for rs in (0, 1):
    for b in bs:
        OBLIGATIONS.append(dict(
            name="C04.a bridge store: %d blocks, reorg at block %d%s, %d fork blocks == store that never saw blocks >= %d" % (n, b, " after a restart" if rs else "", f, b),
            harness=B + "ZZVerif_C04_BridgeReorg", params={"N": n, "F": f, "B": b, "RESTART": rs}, reach=["end"], time_limit_s=3000,
            tiers=(("quick", "thorough") if (tiers[0] == "quick" and (b in (1, 2, 3) or rs == 0)) else ("thorough",)),
            bounds="%d blocks then %d fork blocks, each with 0..1 bridge and 0..1 claim (all field values), reorg point %d, restart before the reorg or not; "
                   "observation: GetLastProcessedBlock, GetBridges/GetClaims (every sub-range), GetExitRootByIndex, GetRootByLER, GetProof, and the root after one more block" % (n, f, b)))
ASSUMPTIONS = ["SQL model incl. ON DELETE CASCADE only when the DSN built by the real NewSQLiteDB enables foreign keys",
               "Keccak collision-freeness for store keys; bridge leaves are non-zero"]
OUTSIDE = "LIKE-filtered paged listings; token mappings / legacy token migrations (not yet in the harness); L1 info and injected-GER stores: separate obligations"
