PROPERTY = "C04"
PACKAGES = ["./bridgesync", "./l1infotreesync"]
B = "github.com/agglayer/aggkit/bridgesync."
OBLIGATIONS = []


def _lay(digits):
    v = 0
    for d in reversed(digits):
        v = v * 6 + d
    return v


def _desc(digits):
    return "|".join("%db%s" % (d % 3, "+c" if d >= 3 else "") for d in digits)


QUICK = [([1, 2], [2]), ([2, 1], [1]), ([4, 1], [4]), ([0, 5], [1]), ([1, 1], [0])]
import itertools
ALL = [(list(a), list(f)) for a in itertools.product(range(6), repeat=2) for f in ([1], [4], [2])]
seen = set()
for lay, flay in QUICK + ALL:
    for rs in (0, 1):
        for b in (0, 1, 2, 3, 4):
            key = (tuple(lay), tuple(flay), rs, b)
            if key in seen:
                continue
            seen.add(key)
            quick = (lay, flay) in QUICK and b in (1, 2, 3) and (rs == 0 or b == 2)
            # thorough: every reorg point and restart for the quick layouts; every two-block layout with the one-bridge fork and a
            # reorg at block 1..3 (all 540 layout/fork/reorg combinations took over an hour)
            thorough = quick or (lay, flay) in QUICK or (rs == 0 and flay == [1] and b in (1, 2, 3))
            if not thorough:
                continue
            OBLIGATIONS.append(dict(
                name="C04.a bridge store: blocks [%s], reorg at block %d%s, fork [%s] == store that never saw blocks >= %d"
                     % (_desc(lay), b, " after a restart" if rs else "", _desc(flay), b),
                harness=B + "ZZVerif_C04_BridgeReorg",
                params={"N": len(lay), "F": len(flay), "B": b, "RESTART": rs, "LAYOUT": _lay(lay), "FLAYOUT": _lay(flay)},
                tiers=("quick", "thorough") if quick else ("thorough",), reach=["end"], time_limit_s=1500,
                bounds="event layout fixed (b = bridges, c = claim per block), every field value symbolic; observation: GetLastProcessedBlock, "
                       "GetBridges/GetClaims (every sub-range), GetExitRootByIndex, GetRootByLER, GetProof, and the root after one more block"))
HITN = {0: "a token migrated in neither block", 1: "the token migrated in block 1 (below the reorg)", 2: "the token migrated in block 2 (orphaned with it)"}
for _hit in (0, 1, 2):
    for _fork in (0, 1):
        OBLIGATIONS.append(dict(
            name="C04.c bridge store, token events: blocks 1-2 with token mappings and legacy-token migrations, block 2 removes %s; reorg from block 2%s: "
                 "token-mapping and migration listings == store that never saw block 2" % (HITN[_hit], ", new block 2" if _fork else ""),
            harness=B + "ZZVerif_C04_TokenEvents", params={"HIT": _hit, "FORK": _fork}, tiers=("quick", "thorough"), reach=[] if _hit == 1 else ["end"], time_limit_s=1500,
            known_finding="C04-1" if _hit == 1 else None,
            bounds="all field values of the events; restart after the reorg or not"))
L1 = "github.com/agglayer/aggkit/l1infotreesync."


def _shape(tokens):
    v = 0
    for t in reversed(tokens):
        v = v * 4 + t
    return v


def _sname(tokens):
    return " ".join({0: "info", 1: "announce", 2: "verify", 3: "|"}[t] for t in tokens)


# (chain, fork, first reorged block, restart: 0 no, 1 before the reorg, 2 after it, tiers)
L1CASES = [
    ([0, 3, 0, 2, 3], [0, 3], 2, 0, ("quick", "thorough")),           # leaf + verified exit root orphaned, other leaf on the fork
    ([2, 3, 2, 0, 3], [2, 3], 2, 0, ("quick", "thorough")),           # exit root verified in the orphaned block may come back on the fork
    ([0, 3, 0, 3], [0, 1, 3], 2, 2, ("quick", "thorough")),           # announcement on the fork checks the rebuilt tree; restart after the reorg
    ([0, 2, 3], [2, 0, 3], 1, 0, ("quick", "thorough")),              # everything orphaned
    ([0, 3, 2, 3], [2, 3], 2, 0, ("quick", "thorough")),              # the orphaned block only verified an exit root (no leaf in it)
    ([2, 3, 0, 3], [0, 3], 2, 0, ("quick", "thorough")),              # the orphaned block only added a leaf
    ([0, 3, 2, 3, 0, 3], [0, 3, 2, 3], 2, 1, ("thorough",)),
    ([0, 0, 3, 0, 3], [0, 0, 3], 2, 0, ("thorough",)),
    ([0, 3, 0, 3, 0, 3], [3], 3, 0, ("thorough",)),
    ([0, 3, 0, 3], [0, 3], 3, 0, ("thorough",)),                      # reorg beyond the last block: nothing changes
    ([2, 3, 2, 3], [2, 2, 3], 2, 2, ("thorough",)),
]  # ([0, 2, 3, 0, 2, 3], [2, 0, 3], 2, 1) took 2840 s of its 3000 s limit: outside the bound
for chain, fork, b, rs, tiers in L1CASES:
    OBLIGATIONS.append(dict(
        name="C04.b L1 info store: blocks [%s], reorg at block %d%s, fork [%s] == chain that never contained the orphaned blocks"
             % (_sname(chain), b, {0: "", 1: " after a restart", 2: " then a restart"}[rs], _sname(fork)),
        harness=L1 + "ZZVerif_C04_L1InfoReorg", params={"SHAPE": _shape(chain), "FSHAPE": _shape(fork), "B": b, "RESTART": rs}, tiers=tiers,
        reach=["end"], time_limit_s=4500,
        bounds="event layout fixed, every field value symbolic; observation: last processed block, leaf by index / by global exit root, roots, proofs, "
               "latest info, rollup exit root, local exit roots and their proofs, last verified batches - all compared with the contract reference"))
ASSUMPTIONS = ["SQL model incl. ON DELETE CASCADE only when the DSN built by the real NewSQLiteDB enables foreign keys",
               "Keccak collision-freeness for store keys; bridge leaves are non-zero"]
OUTSIDE = "LIKE-filtered paged listings; injected-GER store: C16.a (reorg parameter)"
