PROPERTY = "C04"
PACKAGES = ["./bridgesync"]
B = "github.com/agglayer/aggkit/bridgesync."
OBLIGATIONS = []


def _lay(digits):
    v = 0
    for d in reversed(digits):
        v = v * 6 + d
    return v


def _desc(digits):
    return "|".join("%db%s" % (d % 3, "+c" if d >= 3 else "") for d in digits)


QUICK = [([1, 2], [2]), ([2, 1], [1]), ([4, 1], [4]), ([0, 5], [1]), ([1, 1], [0])]
import itertools
ALL = [(list(a), list(f)) for a in itertools.product(range(6), repeat=2) for f in ([1], [4], [2])]
seen = set()
for lay, flay in QUICK + ALL:
    for rs in (0, 1):
        for b in (0, 1, 2, 3, 4):
            key = (tuple(lay), tuple(flay), rs, b)
            if key in seen:
                continue
            seen.add(key)
            quick = (lay, flay) in QUICK and b in (1, 2, 3) and (rs == 0 or b == 2)
            thorough = quick or rs == 0 or (lay, flay) in QUICK
            if not thorough:
                continue
            OBLIGATIONS.append(dict(
                name="C04.a bridge store: blocks [%s], reorg at block %d%s, fork [%s] == store that never saw blocks >= %d"
                     % (_desc(lay), b, " after a restart" if rs else "", _desc(flay), b),
                harness=B + "ZZVerif_C04_BridgeReorg",
                params={"N": len(lay), "F": len(flay), "B": b, "RESTART": rs, "LAYOUT": _lay(lay), "FLAYOUT": _lay(flay)},
                tiers=("quick", "thorough") if quick else ("thorough",), reach=["end"], time_limit_s=1500,
                bounds="event layout fixed (b = bridges, c = claim per block), every field value symbolic; observation: GetLastProcessedBlock, "
                       "GetBridges/GetClaims (every sub-range), GetExitRootByIndex, GetRootByLER, GetProof, and the root after one more block"))
ASSUMPTIONS = ["SQL model incl. ON DELETE CASCADE only when the DSN built by the real NewSQLiteDB enables foreign keys",
               "Keccak collision-freeness for store keys; bridge leaves are non-zero"]
OUTSIDE = "LIKE-filtered paged listings; token mappings / legacy token migrations (not yet in the harness); L1 info and injected-GER stores: pending"
