PROPERTY = "C02"
PACKAGES = ["./aggsender", "./aggsender/flows", "./aggsender/statuschecker", "./aggsender/db"]
A = "github.com/agglayer/aggkit/aggsender."
OBLIGATIONS = []


def _add(k, nblk, mask, retry, grow, faults, tiers, prefix=0, reach=("end", "second height"), cmask=0, maxsize=0, flow=0):
    pre = []
    p = prefix
    while p:
        pre.append({1: "epoch", 2: "status tick"}[p % 3])
        p //= 3
    OBLIGATIONS.append(dict(
        name="C02 %ssend loop, %d events%s, L2 of %d block(s) (bridges in blocks %s), %s, retry %s%s" % (
            "aggchain-prover flow, " if flow else "", k, (" (first: " + ", ".join(pre) + ")") if pre else "", nblk, [i + 1 for i in range(nblk) if mask >> i & 1],
            "one more block visible at every poll" if grow else "all blocks visible from the start",
            "immediately after an error" if retry else "at the next epoch", ", Agglayer calls may fail" if faults else "")
        + (", claims in blocks %s" % [i + 1 for i in range(nblk) if cmask >> i & 1] if cmask else "") + (", certificate size limit %d bytes" % maxsize if maxsize else ""),
        harness=A + "ZZVerif_C02_Loop", params={"K": k, "NBLK": nblk, "MASK": mask, "RETRY": retry, "GROW": grow, "FAULTS": faults, "PREFIX": prefix, "CMASK": cmask, "MAXSIZE": maxsize, "FLOW": flow},
        tiers=tiers, reach=list(reach), time_limit_s=5000, max_paths=400000,
        bounds="every order of %d events (epoch / status tick); at every poll of an open certificate the Agglayer leaves it open, settles it or rejects it; "
               "all ids, exit roots, network id, creation times symbolic" % k))


Q, T = ("quick", "thorough"), ("thorough",)
for retry in (0, 1):
    for grow in (0, 1):
        _add(3, 3, 0b111, retry, grow, 0, Q)
_add(3, 3, 0b101, 1, 1, 0, Q)
_add(3, 2, 0b11, 1, 1, 1, Q, reach=("end",))
_add(3, 3, 0b110, 1, 0, 0, Q, cmask=0b011, maxsize=3100)   # size limit cuts the first range after a claim-only first block
_add(3, 3, 0b101, 0, 1, 0, Q, cmask=0b110)
_add(3, 3, 0b111, 1, 0, 0, Q, flow=1, reach=("end", "second height", "replacement"))                       # aggchain-prover flow: proofs may end before the requested block; retries resend the same range
_add(3, 3, 0b011, 0, 1, 0, Q, flow=1, cmask=0b100)
_add(3, 3, 0b000, 1, 0, 0, Q, flow=1, cmask=0b110, reach=("end",))   # claims only: the prover's shorter range must cut the claims too
_add(3, 4, 0b1000, 0, 0, 0, T, flow=1, cmask=0b0110)
_add(4, 4, 0b1111, 1, 1, 0, T, prefix=1, flow=1)
_add(4, 4, 0b1111, 1, 1, 0, T, prefix=2, flow=1)
_add(4, 3, 0b101, 0, 0, 0, T, prefix=1, flow=1, cmask=0b010)
_add(4, 4, 0b1010, 1, 0, 0, T, prefix=1, cmask=0b0111, maxsize=3100)
_add(4, 4, 0b1010, 1, 0, 0, T, prefix=2, cmask=0b0111, maxsize=3100)
for pfx in (1, 2):
    _add(4, 3, 0b111, 1, 1, 0, Q, prefix=pfx)
    _add(4, 3, 0b111, 0, 0, 0, T, prefix=pfx)
    _add(4, 3, 0b111, 0, 1, 0, T, prefix=pfx)
    _add(4, 3, 0b111, 1, 0, 0, T, prefix=pfx)
    _add(4, 3, 0b110, 1, 1, 1, T, prefix=pfx)
for p1 in (1, 2):
    for p2 in (1, 2):
        _add(5, 4, 0b1111, 1, 1, 0, T, prefix=p1 + 3 * p2)
        _add(5, 4, 0b1011, 0, 1, 0, T, prefix=p1 + 3 * p2)


def PRECHECK(ir, srcs):
    fn = ir.funcs.get("(*github.com/agglayer/aggkit/aggsender.AggSender).sendCertificates")
    if fn is None:
        return ["sendCertificates not found"]
    txt = str(fn)
    if "zzNewTicker" not in txt:
        return ["the status ticker of sendCertificates is not the harness ticker: harness/REWRITES.json no longer matches aggsender.go (time.NewTicker call)"]
    return []


ASSUMPTIONS = [
    "the loop's status ticker is created through the harness (source rewrite of the one time.NewTicker call in aggsender.go, re-applied to the current file at every run): ticks are schedule events",
    "events are fed one at a time, at the start of each loop iteration, through a wrapper of the real status checker",
    "model Agglayer: accepts every submission and judges it; decides the open certificate at arbitrary polls; a failing call has no effect on the Agglayer's state",
    "L2 syncer fake answering as C01/C04 establish (events of a range in order, exit root per deposit count); claims carry no real proofs (C09)",
    "signer, rate limiter and epoch status are stubs; encoding/json.Marshal returns arbitrary bytes (the stored JSON copy is not interpreted)",
]
OUTSIDE = ("more than 5 loop events; random walks beyond the depth bound (not solver-based); a submission that reaches the Agglayer although the call reports failure; "
           "claim proofs (C09); the aggchain-prover flow; the start-up check before the loop (C13)")
