PROPERTY = "C07"
PACKAGES = ["./bridgesync"]
B = "github.com/agglayer/aggkit/bridgesync."
TABLES = ["block", "bridge", "claim", "root", "rht"]
OBLIGATIONS = []


def _add(m, nb, t, fn, tiers, known=None):
    what = "context cancelled before the block" if t < 0 else "insert #%d into table %s fails" % (fn, TABLES[t])
    OBLIGATIONS.append(dict(
        name="C07.a bridge store: %d committed block(s), then a block with %d bridge(s) (+ optional claim) in which %s: nothing recorded; retry == fault-free run" % (m, nb, what),
        harness=B + "ZZVerif_C07_BridgeFault", params={"M": m, "NB": nb, "T": t, "FN": fn, "LAYOUT": 4 + 6 * 1}, tiers=tiers, time_limit_s=3000,
        known_finding=known,
        bounds="%d prior block(s) (first: one bridge and one claim; second: one bridge), faulty block with %d bridge(s) and 0..1 claim, all field values; restart after the fault or not" % (m, nb)))


# quick: one fault position per table; thorough: every statement position of the block's transaction
_add(1, 1, -1, 0, ("quick", "thorough"))
_add(1, 1, 0, 0, ("quick", "thorough"))          # block insert
_add(1, 1, 1, 0, ("quick", "thorough"))          # bridge insert
_add(1, 1, 2, 0, ("quick", "thorough"))          # claim insert (after the bridge and its tree nodes)
_add(1, 1, 3, 0, ("quick", "thorough"))          # root insert
_add(1, 1, 4, 0, ("quick", "thorough"))          # first rht node
_add(1, 1, 4, 17, ("quick", "thorough"))         # a middle rht node
_add(1, 1, 4, 31, ("thorough",))
_add(1, 2, 1, 1, ("quick", "thorough"))          # second bridge row: first bridge's tree update is rolled back too
_add(1, 2, 2, 0, ("quick", "thorough"))          # claim after two bridges
_add(1, 2, 3, 1, ("thorough",))
_add(1, 2, 4, 40, ("thorough",))
_add(0, 2, 2, 0, ("thorough",))
_add(2, 2, 1, 1, ("thorough",))
_add(2, 3, 2, 0, ("thorough",))
for fnx in range(1, 31, 3):
    _add(1, 1, 4, fnx, ("thorough",))
ASSUMPTIONS = ["faults are injected as failing INSERT statements (SQLite RAISE(ABORT) triggers natively; an error return in the SQL model); "
               "SQLite's own atomic commit is trusted", "Keccak collision-freeness for store keys; bridge leaves are non-zero"]
OUTSIDE = "failing COMMIT (cannot be injected natively with triggers); process kill inside SQLite; L1 info and injected-GER stores: separate obligations; driver-level ordering (C05)"
