PROPERTY = "C07"
PACKAGES = ["./bridgesync", "./l1infotreesync", "./lastgersync"]
B = "github.com/agglayer/aggkit/bridgesync."
TABLES = ["block", "bridge", "claim", "root", "rht"]
OBLIGATIONS = []


def _add(m, nb, t, fn, tiers, known=None):
    what = "context cancelled before the block" if t < 0 else "insert #%d into table %s fails" % (fn, TABLES[t])
    OBLIGATIONS.append(dict(
        name="C07.a bridge store: %d committed block(s), then a block with %d bridge(s) (+ optional claim) in which %s: nothing recorded; retry == fault-free run" % (m, nb, what),
        harness=B + "ZZVerif_C07_BridgeFault", params={"M": m, "NB": nb, "T": t, "FN": fn, "LAYOUT": 4 + 6 * 1}, tiers=tiers, time_limit_s=3000,
        known_finding=known,
        bounds="%d prior block(s) (first: one bridge and one claim; second: one bridge), faulty block with %d bridge(s) and 0..1 claim, all field values; restart after the fault or not" % (m, nb)))


# quick: one fault position per table; thorough: every statement position of the block's transaction
_add(1, 1, -1, 0, ("quick", "thorough"))
_add(1, 1, 0, 0, ("quick", "thorough"))          # block insert
_add(1, 1, 1, 0, ("quick", "thorough"))          # bridge insert
_add(1, 1, 2, 0, ("quick", "thorough"))          # claim insert (after the bridge and its tree nodes)
_add(1, 1, 3, 0, ("quick", "thorough"))          # root insert
_add(1, 1, 4, 0, ("quick", "thorough"))          # first rht node
_add(1, 1, 4, 17, ("quick", "thorough"))         # a middle rht node
_add(1, 1, 4, 31, ("thorough",))
_add(1, 2, 1, 1, ("quick", "thorough"))          # second bridge row: first bridge's tree update is rolled back too
_add(1, 2, 2, 0, ("quick", "thorough"))          # claim after two bridges
_add(1, 2, 3, 1, ("thorough",))
_add(1, 2, 4, 40, ("thorough",))
_add(0, 2, 2, 0, ("thorough",))
_add(2, 2, 1, 1, ("thorough",))
_add(2, 3, 2, 0, ("thorough",))
_add(1, 4, 2, 0, ("quick", "thorough"))        # claim after four bridges: three or more leaves of the block are rolled back
_add(2, 4, 1, 3, ("thorough",))
for fnx in range(1, 31, 3):
    _add(1, 1, 4, fnx, ("thorough",))
L1 = "github.com/agglayer/aggkit/l1infotreesync."
L1TABLES = ["block", "l1info_leaf", "verify_batches", "l1_info_root", "l1_info_rht", "rollup_exit_root", "rollup_exit_rht"]


def _shape(tokens):
    v = 0
    for t in reversed(tokens):
        v = v * 4 + t
    return v


def _sname(tokens):
    return " ".join({0: "info", 1: "announce", 2: "verify", 3: "|"}[t] for t in tokens)


def _l1(chain, fb, t, fn, tiers):
    OBLIGATIONS.append(dict(
        name="C07.b L1 info store: blocks [%s], insert #%d into table %s fails while block %d is processed: nothing recorded; retry == fault-free run"
             % (_sname(chain), fn, L1TABLES[t], fb),
        harness=L1 + "ZZVerif_C07_L1InfoFault", params={"SHAPE": _shape(chain), "FB": fb, "T": t, "FN": fn}, tiers=tiers, reach=["fault", "end"],
        time_limit_s=3000, bounds="event layout fixed, every field value symbolic; restart after the fault or not; observation as in C11 after the fault and after the retry"))


Q2, T2 = ("quick", "thorough"), ("thorough",)
_l1([0, 3, 0, 2, 3], 2, 0, 0, Q2)        # block row
_l1([0, 3, 0, 2, 3], 2, 1, 0, Q2)        # leaf row (after nothing else)
_l1([0, 3, 0, 2, 3], 2, 2, 0, Q2)        # verify-batches row: the leaf and its tree nodes are rolled back too
_l1([0, 3, 0, 0, 3], 2, 3, 1, Q2)        # second root of the L1 info tree in the block: first leaf of the block rolled back
_l1([0, 3, 0, 0, 3], 2, 4, 40, Q2)       # a tree node of the second leaf
_l1([2, 3, 0, 2, 3], 2, 5, 0, Q2)        # rollup exit tree root
_l1([2, 3, 0, 2, 3], 2, 6, 9, Q2)        # rollup exit tree node
_l1([0, 3, 0, 0, 0, 0, 3], 2, 1, 3, Q2)  # fourth leaf row of the block: three leaves already added to the tree are rolled back
_l1([0, 0, 3, 0, 0, 0, 0, 3], 2, 1, 3, T2)
_l1([0, 3, 0, 0, 0, 2, 3], 2, 2, 0, T2)
_l1([0, 3, 0, 0, 3], 2, 1, 1, T2)
_l1([0, 3, 2, 2, 3], 2, 2, 1, T2)
_l1([0, 3, 2, 2, 3], 2, 5, 1, T2)
_l1([0, 0, 3], 1, 4, 35, T2)
_l1([0, 3, 0, 1, 3], 2, 4, 5, T2)
for fnx in (0, 8, 16, 24, 31):
    _l1([0, 3, 0, 2, 3], 2, 4, fnx, T2)
    _l1([0, 3, 0, 2, 3], 2, 6, fnx, T2)
GT = {0: "insert of the block row", 1: "insert of the root row", 2: "delete of the root row"}
GK = {1: "insertion (index-polling form)", 2: "insertion (event form)", 3: "removal"}
for _k, _t, _tiers in ((1, 0, Q2), (2, 1, Q2), (3, 2, Q2), (1, 1, T2), (2, 0, T2), (3, 0, T2)):
    OBLIGATIONS.append(dict(
        name="C07.c injected-GER store: block with a root %s, %s fails: nothing recorded; retry == fault-free run" % (GK[_k], GT[_t]),
        harness="github.com/agglayer/aggkit/lastgersync.ZZVerif_C07_GERFault", params={"KIND": _k, "T": _t}, tiers=_tiers, reach=["end"], time_limit_s=1500,
        bounds="one committed block with a root, then the faulty block; all roots, indexes and X; restart after the fault or not"))
ASSUMPTIONS = ["faults are injected as failing INSERT statements (SQLite RAISE(ABORT) triggers natively; an error return in the SQL model); "
               "SQLite's own atomic commit is trusted", "Keccak collision-freeness for store keys; bridge leaves are non-zero"]
OUTSIDE = "failing COMMIT (cannot be injected natively with triggers); process kill inside SQLite;  driver-level ordering (C05)"
