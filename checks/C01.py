PROPERTY = "C01"
PACKAGES = ["./tree", "./bridgesync"]
T = "github.com/agglayer/aggkit/tree."
B = "github.com/agglayer/aggkit/bridgesync."
OBLIGATIONS = []
for ml, tiers in ((0, ("quick", "thorough")), (1, ("quick", "thorough")), (32, ("quick", "thorough")), (33, ("quick", "thorough")),
                  (20, ("quick", "thorough")), (31, ("quick", "thorough")), (64, ("quick", "thorough")), (65, ("quick", "thorough")),
                  (2, ("thorough",)), (4, ("thorough",)), (63, ("thorough",)), (96, ("thorough",)), (100, ("thorough",)), (136, ("thorough",)), (137, ("thorough",)),
                  (200, ("thorough",))):
    OBLIGATIONS.append(dict(
        name="C01.a leaf: Bridge.Hash == contract getLeafValue, metadata length %d" % ml, harness=B + "ZZVerif_C01_Leaf", params={"ML": ml},
        tiers=tiers, reach=["end"],
        bounds="all leaf types (uint8), networks (uint32), addresses, amounts nil/0..2^256-1, all metadata contents of %d bytes" % ml))
NS_Q = [0, 1, 2, 3, 7, 8, 0xffff, 0x10000, 0x7fffffff, 0x80000000, 0xfffffffe, 0x55555555, 0xaaaaaaaa]
NS_T = NS_Q + [(1 << k) - 1 for k in range(2, 32)] + [1 << k for k in range(2, 32)] + [0xfffffffd, 0x12345678, 0xdeadbeef, 0xfffe7fff]
for n in sorted(set(NS_T)):
    OBLIGATIONS.append(dict(
        name="C01.b frontier step at leaf index %d (0x%x): AddLeaf root == contract root; frontier invariant kept" % (n, n),
        harness=T + "ZZVerif_C01_FrontierStep", params={"N": n}, tiers=("quick", "thorough") if n in NS_Q else ("thorough",), reach=["end"],
        bounds="leaf index %d concrete; arbitrary frontier L[0..31], arbitrary contract branch agreeing with L where bit_h(n)=1, arbitrary leaf, block, position" % n))
for k, tiers in ((0, ("quick", "thorough")), (2, ("quick", "thorough")), (3, ("thorough",))):
    OBLIGATIONS.append(dict(name="C01.c wrong leaf index refused with ErrInvalidIndex, nothing written (after %d real appends, with/without restart)" % k,
                            harness=T + "ZZVerif_C01_WrongIndex", params={"K": k}, tiers=tiers,
                            bounds="%d appended leaves, any index != %d, any leaf values" % (k, k)))
for k, tiers in ((3, ("quick", "thorough")), (5, ("thorough",))):
    OBLIGATIONS.append(dict(name="C01.d %d real appends from the empty store, restart possible before each: every root == contract root; "
                                 "every historical (root, position) serves the written leaf and a verifying proof" % k,
                            harness=T + "ZZVerif_C01_AppendBMC", params={"K": k}, tiers=tiers, reach=["end"], time_limit_s=3000,
                            bounds="%d leaves, all non-zero leaf values, all 2^%d restart patterns" % (k, k)))
for k, ml, tiers in ((3, 0, ("quick", "thorough")), (2, 33, ("quick", "thorough")), (4, 1, ("thorough",))):
    OBLIGATIONS.append(dict(name="C01.e %d deposits through the real bridge processor: all partitions into blocks, empty blocks, restarts; "
                                 "roots by deposit count == contract roots; bridges served back (metadata %d bytes)" % (k, ml),
                            harness=B + "ZZVerif_C01_Blocks", params={"K": k, "ML": ml}, tiers=tiers, reach=["end"], time_limit_s=3000,
                            bounds="%d deposits, arbitrary field values, every partition into blocks, optional empty block and restart before each block" % k))
SOLVER_TIMEOUT_S = {"quick": 60, "thorough": 300}
ASSUMPTIONS = [
    "Keccak-256 is an uninterpreted function per input length (results hold for every function); concrete evaluations use real Keccak",
    "store keys (root.hash, rht.hash): Keccak collision-freeness, hashes of different lengths differ, a hash never equals a constant "
    "that was not produced as a hash in the run",
    "leaves are non-zero (the zero word has no known Keccak preimage; a zero leaf makes two consecutive roots equal and the root table's primary key rejects it)",
    "SQL model of SQLite (DESIGN.md section 4); math/big as 256-bit naturals",
    "reference = transliteration of DepositContractBase._addLeaf/getRoot and PolygonZkEVMBridgeV2.getLeafValue",
]
OUTSIDE = "symbolic leaf index in the step lemma (the solver does not finish; concrete indices incl. all 2^k and 2^k-1 are used instead); deposit count 2^32-1; contract byte-code; log parsing"
