PROPERTY = "C13"
PACKAGES = ["./aggsender/flows", "./aggsender/statuschecker", "./aggsender/db"]
F = "github.com/agglayer/aggkit/aggsender/flows."
OBLIGATIONS = []
LASTN = {0: "no certificate after them", 1: "then an undecided certificate", 2: "then a certificate in error"}
LOCALN = {0: "database lost", 1: "database one certificate behind (stop between submit and store)", 2: "database on the same page, last status possibly stale",
          3: "database holds a record the Agglayer does not know"}


def _rec(hist, last, local, keep, tiers, qf=0):
    reach = ["refused"] if local == 3 else (["first"] if hist == 0 and last == 0 else {0: ["follows"], 1: ["undecided"], 2: ["replaces"]}[last])
    if qf:
        reach = reach + ["query failed"]
    OBLIGATIONS.append(dict(
        name="C13.a restart: Agglayer has %d settled certificate(s), %s; %s%s%s" % (hist, LASTN[last], LOCALN[local], "; history kept" if keep else "",
             {0: "", 1: "; the first attempt's latest-non-settled query fails", 2: "; the first attempt's latest-settled query fails"}[qf]),
        harness=F + "ZZVerif_C13_Recover", params={"HIST": hist, "LAST": last, "LOCAL": local, "KEEP": keep, "QF": qf}, tiers=tiers, reach=reach,
        time_limit_s=1500,
        bounds="%d settled certificate(s) + %d more; every id, exit root, block span (32 bit), creation time, open status; header with or without previous exit root" % (hist, 1 if last else 0)))


for hist in (0, 1, 2):
    for last in (0, 1, 2):
        for local in (0, 1, 2, 3):
            if local == 1 and (hist == 0 or last == 0):
                continue  # "behind by one" with nothing below is the lost database; with nothing above is "same page"
            if local == 2 and hist + (1 if last else 0) == 0:
                continue
            q = hist <= 1
            _rec(hist, last, local, 0, ("quick", "thorough") if q else ("thorough",))
            if local in (1, 2):
                _rec(hist, last, local, 1, ("thorough",))

for hist, last, local, qf, tiers in ((1, 1, 1, 1, ("quick", "thorough")), (1, 2, 0, 1, ("quick", "thorough")), (1, 0, 2, 2, ("quick", "thorough")), (0, 1, 0, 1, ("thorough",)),
                                     (1, 1, 1, 2, ("thorough",)), (2, 2, 1, 1, ("thorough",)), (1, 2, 2, 1, ("thorough",)), (1, 1, 3, 1, ("thorough",))):
    _rec(hist, last, local, 0, tiers, qf)

for hist in (1, 2):
    for local in (0, 2):
        OBLIGATIONS.append(dict(
            name="C13.c restart: the Agglayer reports %d settled certificate(s) and a latest non-settled one (open or in error) at or below the settled height; %s: refused, database unchanged" % (
                hist, LOCALN[local] if local == 0 else "database holds the settled certificates"),
            harness=F + "ZZVerif_C13_Inconsistent", params={"HIST": hist, "LOCAL": local}, tiers=("quick", "thorough") if hist == 1 or local == 0 else ("thorough",),
            reach=["refused"], time_limit_s=1500, bounds="every height of the stale certificate up to the settled height, every status, all ids and exit roots"))
FAULTN = {0: "no fault", 1: "the insert into certificate_info fails", 2: "the insert into certificate_info_history fails", 3: "the delete from certificate_info fails"}
for keep in (0, 1):
    for fault in (0, 1, 2, 3):
        OBLIGATIONS.append(dict(
            name="C13.b replace at a height (%s), %s" % ("history kept" if keep else "history not kept", FAULTN[fault]),
            harness=F + "ZZVerif_C13_Save", params={"KEEP": keep, "FAULT": fault}, tiers=("quick", "thorough"),
            reach=["failed write"] if fault and (fault != 2 or keep) else ["replaced"], time_limit_s=1500,
            bounds="one record at a symbolic height (optionally one below it), a second certificate for the same height; all field values"))

ASSUMPTIONS = [
    "the Agglayer is modelled by its three read calls (latest settled, latest non-settled, header by id) answering from a ground-truth chain: "
    "contiguous block ranges starting at block 1, each certificate starting from the previous one's new exit root, at most one non-settled certificate on top",
    "certificate metadata is the V2 word this node writes (NewCertificateMetadata(...).ToHash()); legacy V0/V1 words are outside",
    "certificate ids of the chain are pairwise different",
    "transient Agglayer failures: one failing latest-settled or latest-non-settled query on the first start-up attempt (obligations that say so)",
    "storage faults are failing INSERT/DELETE statements (SQLite RAISE(ABORT) triggers natively, error returns in the SQL model); SQLite's atomic commit is trusted",
]
OUTSIDE = ("the send loop itself (C02: not applicable); a retry submitted but not stored (local in-error record vs. a new Agglayer certificate at the same height): "
           "the code refuses (ids differ), which the property allows; histories longer than 3 certificates")
