PROPERTY = "C11"
PACKAGES = ["./l1infotreesync"]
L = "github.com/agglayer/aggkit/l1infotreesync."
OBLIGATIONS = [
    dict(name="C11.a L1 info leaf hash and global exit root equal the contract's", harness=L + "ZZVerif_C11_Leaf",
         bounds="all exit roots, parent hashes and 64-bit timestamps"),
]


def _shape(tokens):
    v = 0
    for t in reversed(tokens):
        v = v * 4 + t
    return v


def _name(tokens):
    return " ".join({0: "info", 1: "announce", 2: "verify", 3: "|"}[t] for t in tokens)


QUICK_SHAPES = [[0, 0, 3, 1, 3], [0, 3, 2, 2, 3], [2, 3, 0, 1, 3], [0, 1, 0, 3], [0, 2, 3, 0, 3], [2, 0, 3, 2, 1, 3]]
import itertools
ALL = []
for n in range(1, 5):
    for body in itertools.product((0, 1, 2, 3), repeat=n):
        toks = list(body) + [3]
        if any(toks[i] == 3 and toks[i + 1] == 3 for i in range(len(toks) - 1)) and n > 1:
            continue
        if 1 in toks and (0 not in toks or toks.index(1) < toks.index(0)):
            continue  # an announcement cannot precede the first leaf (the harness assumes it away: the obligation would be vacuous)
        ALL.append(toks)
seen = set()
for toks in QUICK_SHAPES + ALL:
    key = tuple(toks)
    if key in seen:
        continue
    seen.add(key)
    q = toks in QUICK_SHAPES
    for rs in (0, 1):
      OBLIGATIONS.append(dict(
        name="C11.b/c L1 history [%s]%s: leaves/roots/proofs == contracts'; wrong announcement halts; rollup exit tree == rollup manager" % (_name(toks), ", restart before every block" if rs else ""),
        harness=L + "ZZVerif_C11_Tree", params={"SHAPE": _shape(toks), "RESTART": rs}, tiers=("quick", "thorough") if q else ("thorough",),
        time_limit_s=900 if q else 3000, max_paths=400000,
        bounds="event sequence fixed, every field value, right/wrong announcements, rollup ids 1..3, zero/unchanged/new exit roots"))
REACH_NOTE = "vacuity: every obligation must discharge at least one assertion; per-shape witnesses are not required"
OBLIGATIONS.append(dict(
    name="C11.d (known finding C11-1) a rollup's exit root goes A, B, A: the update that brings the rollup exit tree back to an already recorded root must be recorded",
    harness=L + "ZZVerif_C11_ExitRootRevert", known_finding="C11-1", bounds="rollup 1, any distinct non-zero A and B"))
def _kinds(ks):
    v = 0
    for k in reversed(ks):
        v = v * 5 + k
    return v


KN = {0: "info update", 1: "root announcement", 2: "verify batches", 3: "verify batches (trusted)", 4: "initial root"}
for ks, tiers in (([0, 0], ("quick", "thorough")), ([0, 2, 1], ("quick", "thorough")), ([3, 0, 4], ("quick", "thorough")), ([2, 3, 0, 0], ("thorough",)),
                  ([1, 0, 1, 2], ("thorough",)), ([4, 0, 0, 0], ("thorough",))):
    OBLIGATIONS.append(dict(
        name="C11.e log appender: logs [%s] of one block become events in order, arguments in the right fields, positions increasing with the log index" % ", ".join(KN[k] for k in ks),
        harness=L + "ZZVerif_C11_Appender", params={"KINDS": _kinds(ks), "N": len(ks)}, tiers=tiers, reach=["end"], time_limit_s=1500,
        bounds="all argument values, all increasing log indexes (32 bit), all transaction indexes (16 bit; logs may share a transaction)"))
ASSUMPTIONS = ["verified exit roots are fresh: the rollup exit tree never returns to a root it has recorded before (outside this assumption: known finding C11-1)",
               "Keccak as uninterpreted function + collision-freeness for store keys", "SQL model of SQLite",
               "the L1 contract never emits the same global exit root twice (UNIQUE column) and announces roots only after a leaf exists",
               "reference = transliteration of DepositContractBase and of the rollup manager's getRollupExitRoot over 4 rollups"]
ASSUMPTIONS.append("C11.e: the generated contract bindings are modelled (Parse<Event> decodes indexed arguments from topics and the others from data words, as UnpackLog does); natively the real bindings run")
OUTSIDE = "RollupID = 0; InitL1InfoRootMap events in the processor; fetching of logs from the node (C05)"
