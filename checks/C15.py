PROPERTY = "C15"
PACKAGES = ["./aggoracle"]
A = "github.com/agglayer/aggkit/aggoracle."
OBLIGATIONS = []
for nt, nl, tiers in ((2, 2, ("quick", "thorough")), (1, 3, ("quick", "thorough")), (3, 2, ("thorough",)), (3, 3, ("thorough",))):
    OBLIGATIONS.append(dict(
        name="C15 oracle: %d tick(s), %d L1 info leaves: injected root = latest leaf at or below the sampled finalized block; not already on L2; injected when due" % (nt, nl),
        harness=A + "ZZVerif_C15_Oracle", params={"NTICK": nt, "NLEAVES": nl}, tiers=tiers, reach=["injected", "due"], time_limit_s=1500, arith="int",
        bounds="%d leaves at arbitrary non-decreasing blocks with distinct roots; per tick: finalized block and syncer progress arbitrary (non-decreasing), "
               "each of the three dependencies may fail; first root possibly already on L2" % nl))
ASSUMPTIONS = ["the info syncer fake follows the contract of the real GetLatestInfoUntilBlock (C11)", "finalized block and syncer progress never decrease",
               "one oracle step per tick (the ticker loop is not modelled)"]
OUTSIDE = "ticker/goroutine scheduling; the chain sender's transaction management"
