PROPERTY = "C06"
PACKAGES = ["./reorgdetector", "./sync"]
R = "github.com/agglayer/aggkit/reorgdetector."
OBLIGATIONS = []
for nt, tiers in ((1, ("quick", "thorough")), (2, ("quick", "thorough")), (3, ("quick", "thorough")), (4, ("thorough",))):
    OBLIGATIONS.append(dict(
        name="C06.b/c/e %d tracked block(s), any subset replaced on the canonical chain, any finalized block, detection pass (after a restart or not): "
             "notified iff something was replaced, with the first replaced block; memory and table keep exactly the survivors" % nt,
        harness=R + "ZZVerif_C06_Detect", params={"NT": nt}, tiers=tiers, reach=["reorg", "noreorg"], time_limit_s=1500,
        bounds="%d consecutive tracked blocks starting at 1..3, finalized block 0..6, every replaced/kept pattern, arbitrary hashes" % nt))
for nt, k, tiers in ((3, 2, ("quick", "thorough")), (2, 1, ("quick", "thorough")), (4, 2, ("thorough",)), (3, 3, ("thorough",))):
    OBLIGATIONS.append(dict(
        name="C06.f node stopped during a reorg: %d tracked blocks, the last %d replaced; a detector restarted after the notification and before the subscriber's "
             "acknowledgement still tracks every replaced block" % (nt, k),
        harness=R + "ZZVerif_C06_StopDuringReorg", params={"NT": nt, "K": k}, tiers=tiers, reach=["served"], time_limit_s=1500,
        bounds="%d consecutive tracked blocks from 1, any finalized block below the replaced ones, arbitrary hashes" % nt))
for nt, k, tiers in ((2, 1, ("quick", "thorough")), (3, 2, ("thorough",))):
    OBLIGATIONS.append(dict(
        name="C06.g busy subscriber: %d tracked blocks, the last %d replaced; the subscriber looks at its notification channel only after several check intervals: "
             "the detection pass still delivers the first replaced block and gets the acknowledgement" % (nt, k),
        harness=R + "ZZVerif_C06_BusySubscriber", params={"NT": nt, "K": k}, tiers=tiers, reach=["served"], time_limit_s=1500,
        bounds="%d consecutive tracked blocks from 1, any finalized block below the replaced ones, arbitrary hashes; the subscription's own unbuffered channels" % nt))
OBLIGATIONS.append(dict(
    name="C06.a driver handleNewBlock: a non-finalized block is tracked (successfully) before it is processed; finalized blocks are not tracked",
    harness="github.com/agglayer/aggkit/sync.ZZVerif_C05_Driver", reach=["tracked"],
    bounds="0..2 transient tracker failures, 0..2 transient store failures, any block"))
OBLIGATIONS.append(dict(
    name="C06.d driver handleReorg: downloader stopped, store rewound to the notified block (retrying), then acknowledged",
    harness="github.com/agglayer/aggkit/sync.ZZVerif_C06_HandleReorg", bounds="0..2 transient failures of Reorg, any block number"))
ASSUMPTIONS = ["block hash = uninterpreted function of (parent hash, state root, number, time) (real RLP/Keccak natively)",
               "subscriber hand-shake through buffered channels with ready acknowledgements; in C06.f the subscriber side runs when the detector blocks on the acknowledgement (cooperative model; a goroutine natively)",
               "C06.g: a channel send succeeds (the busy subscriber's goroutine takes it later; natively it sleeps 20 check intervals first); a time.After timer may have fired whenever the code looks at it", "SQL model of SQLite",
               "errgroup runs its functions inline, one subscriber"]
OUTSIDE = "concurrency between the detector and the driver; several subscribers"
