PROPERTY = "C10"
PACKAGES = ["./agglayer/grpc", "./aggsender/flows", "./agglayer/types", "./aggsender", "./aggsender/statuschecker", "./aggsender/db"]
T = "github.com/agglayer/aggkit/agglayer/types."
G = "github.com/agglayer/aggkit/agglayer/grpc."
F = "github.com/agglayer/aggkit/aggsender/flows."
OBLIGATIONS = [
    dict(name="C10.b every covered field of a certificate (2 exits, a mainnet and a rollup imported exit, nil/zero amounts, empty metadata) arrives unchanged in the SubmitCertificate request",
         harness=G + "ZZVerif_C10_Wire", reach=["end"], time_limit_s=1500,
         bounds="all field values; proofs with three arbitrary siblings each (all 32 positions compared); signature 65 bytes; global index compared with the contract's bit layout"),
    dict(name="C10.a the PP flow signs the commitment of the certificate it returns, with the configured signer (1 rollup claim, symbolic tree positions)",
         harness=F + "ZZVerif_C09_ClaimProofs", params={"NL": 2, "NC": 1, "FIN": 0, "ML": 0, "GIFULL": 1, "MAINNET": 0, "SYMIDX": 1, "LIDX": 0, "RIDX": 0}, reach=["built"],
         time_limit_s=1500, bounds="see C09; assertions 'signed hash = PP commitment of the returned certificate', 'attached signature is the signer's answer'"),
]
SCH = {0: "PP commitment", 1: "FEP commitment", 2: "certificate identity"}
for _sc, _nb, _ni, _ml, _pa, _gf, _tiers in [
        (0, 0, 2, 0, 0, 1, ("quick", "thorough")), (1, 0, 2, 0, 1, 1, ("quick", "thorough")), (1, 0, 2, 32, 0, 1, ("quick", "thorough")),
        (2, 1, 1, 0, 0, 1, ("quick", "thorough")), (2, 2, 2, 32, 0, 1, ("thorough",)), (0, 0, 3, 0, 0, 1, ("thorough",)),
        (1, 0, 3, 32, 1, 1, ("thorough",)), (1, 0, 1, 0, 0, 0, ("quick", "thorough")), (0, 0, 1, 0, 0, 0, ("quick", "thorough")),
        (0, 0, 2, 0, 0, 0, ("thorough",)), (1, 0, 2, 0, 1, 0, ("thorough",))]:
    OBLIGATIONS.append(dict(
        name="C10.c %s: two certificates with %d exit(s) and %d imported exit(s) (%s metadata%s%s) have equal commitments iff their covered fields are equal" % (
            SCH[_sc], _nb, _ni, "32-byte" if _ml else "empty", ", aggchain params" if _pa else "", "" if _gf else ", global indexes of every byte length"),
        harness=T + "ZZVerif_C10_Sensitive", params={"SCHEME": _sc, "NB": _nb, "NI": _ni, "ML": _ml, "PARAMS": _pa, "GIFULL": _gf}, tiers=_tiers, reach=["compared"], time_limit_s=1500,
        bounds="both certificates fully symbolic (all field values, both index kinds); same shape on both sides"))
OBLIGATIONS.append(dict(
    name="C10.a the aggchain-prover flow signs the FEP commitment of the certificate it submits, with the configured signer, and attaches the answer (send loop, 3 events)",
    harness="github.com/agglayer/aggkit/aggsender.ZZVerif_C02_Loop",
    params={"K": 3, "NBLK": 3, "MASK": 0b111, "RETRY": 1, "GROW": 0, "FAULTS": 0, "PREFIX": 0, "CMASK": 0, "MAXSIZE": 0, "FLOW": 1}, reach=["end", "second height"],
    time_limit_s=3000, max_paths=400000, bounds="see C02; assertions 'the last hash given to the signer is the commitment of the submitted certificate', 'the signer's answer is attached'"))
ASSUMPTIONS = ["the submission service is a fake that records the request", "protobuf messages are plain structs (generated getters executed where used)",
               "Keccak as uninterpreted function"]
ASSUMPTIONS.append("C10.c: equality of commitments is decided under Keccak collision-freeness (equal hashes of equal length have equal inputs, hashes of different "
                   "input length differ); a metadata field holding the hash of the empty string is the same as empty metadata by construction of the leaf")
OUTSIDE = "the JSON copy stored in the node's database (encoding/json is not modelled): 'stored copy' is not claimed; " \
          "certificates of different shapes (different numbers of exits) in C10.c"
