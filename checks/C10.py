PROPERTY = "C10"
PACKAGES = ["./agglayer/grpc", "./aggsender/flows"]
G = "github.com/agglayer/aggkit/agglayer/grpc."
F = "github.com/agglayer/aggkit/aggsender/flows."
OBLIGATIONS = [
    dict(name="C10.b every covered field of a certificate (2 exits, a mainnet and a rollup imported exit, nil/zero amounts, empty metadata) arrives unchanged in the SubmitCertificate request",
         harness=G + "ZZVerif_C10_Wire", reach=["end"], time_limit_s=1500,
         bounds="all field values; proofs with three arbitrary siblings each (all 32 positions compared); signature 65 bytes; global index compared with the contract's bit layout"),
    dict(name="C10.a the PP flow signs the commitment of the certificate it returns, with the configured signer (1 rollup claim, symbolic tree positions)",
         harness=F + "ZZVerif_C09_ClaimProofs", params={"NL": 2, "NC": 1, "FIN": 0, "ML": 0, "GIFULL": 1, "MAINNET": 0, "SYMIDX": 1, "LIDX": 0, "RIDX": 0}, reach=["built"],
         time_limit_s=1500, bounds="see C09; assertions 'signed hash = PP commitment of the returned certificate', 'attached signature is the signer's answer'"),
]
ASSUMPTIONS = ["the submission service is a fake that records the request", "protobuf messages are plain structs (generated getters executed where used)",
               "Keccak as uninterpreted function"]
OUTSIDE = "the JSON copy stored in the node's database (encoding/json is not modelled): 'stored copy' is not claimed; the aggchain-proof signing scheme; " \
          "sensitivity of the commitment to single-field changes (needs hash injectivity reasoning at Go level): not claimed"
