PROPERTY = "C16"
PACKAGES = ["./lastgersync", "./internal/zzverifeth"]
L = "github.com/agglayer/aggkit/lastgersync."
OBLIGATIONS = []
for k, bs, tiers in ((3, (0, 2), ("quick", "thorough")), (3, (1, 3, 4), ("thorough",)), (4, (2, 3, 4), ("thorough",))):
    for b in bs:
        OBLIGATIONS.append(dict(
            name="C16.a injected-GER index: %d L2 blocks (<=1 insertion/removal each)%s, restart or not: query X returns the least live index >= X, not-found iff none"
                 % (k, ", reorg at block %d" % b if b else ""),
            harness=L + "ZZVerif_C16_GERIndex", params={"K": k, "B": b, "UNDONE": 0}, tiers=tiers, reach=["notfound"] if b == 1 else ["found", "notfound"], time_limit_s=3000,
            bounds="%d blocks, event per block in {none, insert (both event forms), remove}, GER from a pool of two distinct values, all uint32 indexes, all X" % k))
for k, b in ((3, 2), (3, 3)):
    OBLIGATIONS.append(dict(
        name="C16.a (known finding C16-2) injected-GER index: %d L2 blocks, reorg at block %d that orphans a removal of a root injected below it: the root is live again" % (k, b),
        harness=L + "ZZVerif_C16_GERIndex", params={"K": k, "B": b, "UNDONE": 1}, tiers=("quick", "thorough"), reach=[], time_limit_s=3000, known_finding="C16-2",
        bounds="as C16.a, restricted to histories in which a removal in an orphaned block had deleted a root of a kept block"))
for nb, np_, start, far, tiers in ((3, 2, 0, 0, ("quick", "thorough")), (4, 3, 5, 0, ("quick", "thorough")), (4, 2, 0, 1, ("quick", "thorough")), (3, 2, 1, 2, ("quick", "thorough")),
                                  (4, 4, 0, 0, ("thorough",)), (5, 2, 3, 0, ("thorough",)), (6, 2, 7, 1, ("thorough",))):
    OBLIGATIONS.append(dict(
        name="C16.b PP download loop: %d L2 blocks that may hold an event after block %d%s, %d polls seeing arbitrary tips: every block with a GER event up to the last tip is handed over once, in order"
             % (nb, start, {0: "", 1: " (half of them about 1000 blocks further on)", 2: " (the L1 info syncer lags: first lookup of each root fails)"}[far], np_),
        harness=L + "ZZVerif_C16_PPDownload", params={"NB": nb, "NP": np_, "START": start, "FAR": far % 2, "LAG": far // 2}, tiers=tiers, reach=["events", "end"], time_limit_s=3000, max_paths=600000,
        bounds="%d blocks, event per block in {none, insertion, removal}, all roots; %d polls with every non-decreasing tip sequence (no progress, one block, several blocks)" % (nb, np_)))
for nl, np_, runs, tiers in ((3, 2, 1, ("quick", "thorough")), (2, 1, 2, ("quick", "thorough")), (4, 2, 1, ("thorough",)), (3, 3, 1, ("thorough",))):  # two runs of two polls each (4 polls) do not finish in 3000 s
    OBLIGATIONS.append(dict(
        name="C16.c FEP download loop feeding the real processor: %d L1 info leaves, %d run(s) of the downloader (restart between them) of %d polls each, arbitrary tips and arbitrary growing sets of injected roots: "
             "query X returns an injected root with index >= X, not-found only if none" % (nl, runs, np_),
        harness=L + "ZZVerif_C16_FEP", params={"NL": nl, "NP": np_, "RUNS": runs}, tiers=tiers, reach=["block", "found", "notfound"], time_limit_s=3000, max_paths=600000,
        bounds="%d leaves, %d polls in all with every non-decreasing tip sequence and every monotone injection history (indexes may be skipped); all X" % (nl, np_ * runs)))
ASSUMPTIONS = ["C16.a obligations other than the known-finding ones assume that no removal in an orphaned block concerns a root injected in a kept block (that region is known finding C16-2)", "at most one GER event per L2 block (the table's primary key; stated in the property)", "SQL model of SQLite"]
ASSUMPTIONS += ["C16.b: the L2 node is a fake client (tips per poll, logs per range, headers); the generated contract binding is modelled (indexed arguments from the topics; natively the real binding runs); "
                "the ticker of WaitForNewBlocks ticks whenever looked at (bounded); block hash as uninterpreted function of the header",
                "C16.c: the GER manager's globalExitRootMap read call of the generated binding is run as eth_call over the fake node (internal/zzverifeth.CallWord; natively the generated code runs); the L1 info tree is fixed during the run; roots are distinct tags"]
OUTSIDE = "RPC errors inside the PP loop; reorgs between the log query and the header query (C05)"
