PROPERTY = "C16"
PACKAGES = ["./lastgersync"]
L = "github.com/agglayer/aggkit/lastgersync."
OBLIGATIONS = []
for k, bs, tiers in ((3, (0, 2), ("quick", "thorough")), (4, (0, 1, 2, 3, 4, 5), ("thorough",))):
    for b in bs:
        OBLIGATIONS.append(dict(
            name="C16.a injected-GER index: %d L2 blocks (<=1 insertion/removal each)%s, restart or not: query X returns the least live index >= X, not-found iff none"
                 % (k, ", reorg at block %d" % b if b else ""),
            harness=L + "ZZVerif_C16_GERIndex", params={"K": k, "B": b}, tiers=tiers, reach=["found", "notfound"], time_limit_s=3000,
            bounds="%d blocks, event per block in {none, insert (both event forms), remove}, GER from a pool of two distinct values, all uint32 indexes, all X" % k))
ASSUMPTIONS = ["at most one GER event per L2 block (the table's primary key; stated in the property)", "SQL model of SQLite"]
OUTSIDE = "the polling downloaders (C16.b/c: pending)"
