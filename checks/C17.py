PROPERTY = "C17"
PACKAGES = ["./aggsender/types"]
T = "github.com/agglayer/aggkit/aggsender/types."
OBLIGATIONS = [
    dict(name="C17.d Gap: touching/overlapping => empty; otherwise exactly the blocks strictly between",
         harness=T + "ZZVerif_C17_Gap", bounds="all four uint64 endpoints (2^256 pairs of well-formed ranges), incl. 0 and 2^64-1",
         reach=["disjoint"]),
]
BOUNDS = "see per-obligation bounds"
OUTSIDE = ""
ASSUMPTIONS = ["ranges are well-formed (From <= To)"]
