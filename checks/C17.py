PROPERTY = "C17"
PACKAGES = ["./aggsender/types", "./aggsender/flows"]
T = "github.com/agglayer/aggkit/aggsender/types."
F = "github.com/agglayer/aggkit/aggsender/flows."
OBLIGATIONS = [
    dict(name="C17.d Gap: touching/overlapping => empty; otherwise exactly the blocks strictly between",
         harness=T + "ZZVerif_C17_Gap", bounds="all four uint64 endpoints (2^256 pairs of well-formed ranges), incl. 0 and 2^64-1",
         reach=["disjoint"]),
]
for nb, nc, span, tiers in ((2, 1, 3, ("quick", "thorough")), (4, 3, 5, ("thorough",))):
    OBLIGATIONS.append(dict(name="C17.a Range: %d bridges, %d claims over %d blocks: same first block, exactly the events of the kept blocks in order, other fields copied" % (nb, nc, span + 1),
                            harness=T + "ZZVerif_C17_Range", params={"NB": nb, "NC": nc, "SPAN": span, "BMASK": 0, "CMASK": 0}, tiers=tiers, reach=["end"],
                            bounds="block numbers of the events arbitrary (ordered) in the range, any first block < 2^40, any cut point"))
for nb, nc, span, tiers in ((2, 1, 2, ("quick", "thorough")), (3, 1, 3, ("thorough",)), (2, 2, 3, ("thorough",))):
    OBLIGATIONS.append(dict(name="C17.b limitCertSize: %d bridges, %d claims over %d blocks: fits or single block; maximal; first block kept; events = kept blocks" % (nb, nc, span + 1),
                            harness=F + "ZZVerif_C17_LimitCertSize", params={"NB": nb, "NC": nc, "SPAN": span, "BMASK": 0, "CMASK": 0}, tiers=tiers, reach=["cut"], time_limit_s=3000,
                            bounds="all size limits (uint32), both certificate types, event block numbers arbitrary (ordered), metadata lengths 1000*(i+1) / 700*(i+1) bytes"))
for bm, cm, span, tiers in ((0b0000010010, 0b1010000100, 9, ("quick", "thorough")), (0b00101, 0b11010, 4, ("quick", "thorough")),
                            (0b100000000001, 0b011111111110, 11, ("thorough",)), (0b1111, 0b0000, 3, ("thorough",)), (0b000011, 0b111100, 5, ("thorough",))):
    OBLIGATIONS.append(dict(name="C17.b limitCertSize, fixed layout over blocks 1..%d (bridges in %s, claims in %s), every size limit: fits or single block; maximal; first block kept; events = kept blocks"
                                 % (span + 1, [i + 1 for i in range(span + 1) if bm >> i & 1], [i + 1 for i in range(span + 1) if cm >> i & 1]),
                            harness=F + "ZZVerif_C17_LimitCertSize", params={"NB": 0, "NC": 0, "SPAN": span, "BMASK": bm, "CMASK": cm}, tiers=tiers, reach=["cut"], time_limit_s=1500,
                            bounds="all size limits (uint32), both certificate types; metadata lengths 1000*(i+1) / 700*(i+1) bytes"))
for nb, nc, span, tiers in ((2, 1, 2, ("quick", "thorough")), (3, 2, 4, ("thorough",))):
    OBLIGATIONS.append(dict(name="C17.c last-L2-block limiter: %d bridges, %d claims over %d blocks: ends at min(ToBlock, max) or refuses in the documented cases; retry and non-retry" % (nb, nc, span + 1),
                            harness=F + "ZZVerif_C17_MaxL2Block", params={"NB": nb, "NC": nc, "SPAN": span, "BMASK": 0, "CMASK": 0}, tiers=tiers, reach=["cut"], time_limit_s=3000,
                            bounds="all last-block limits (uint64), retry or not, both option flags, event block numbers arbitrary (ordered)"))
ASSUMPTIONS = ["ranges are well-formed (From <= To); events are ordered by block as the bridge syncer returns them",
               "metadata lengths are concrete per obligation (slice lengths are concrete in the encoder)"]
OUTSIDE = "symbolic metadata lengths; float rounding of EstimatedSize beyond the listed sizes"
