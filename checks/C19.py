PROPERTY = "C19"
PACKAGES = ["./bridgesync", "./common"]
B = "github.com/agglayer/aggkit/bridgesync."
OBLIGATIONS = [
    dict(name="C19.a Decode(Generate(m,r,l)) == (m, m?0:r, l); value has the contract bit layout",
         harness=B + "ZZVerif_C19_EncodeDecode", bounds="all 2 x 2^32 x 2^32 triples (byte length of big.Int.Bytes() split 0..9)", reach=["end"]),
    dict(name="C19.b Generate(Decode(g)) == g for canonical on-chain values",
         harness=B + "ZZVerif_C19_DecodeEncode", bounds="all g < 2^65 with rollup bits zero when the mainnet bit is set", reach=["end"]),
]
OBLIGATIONS.append(dict(name="C19.c consumers: the little-endian encoding used by the certificate commitments is the byte-reversed contract word",
                        harness=B + "ZZVerif_C19_Consumers", bounds="all 2 x 2^32 x 2^32 triples", reach=["end"], unwind=200))
ASSUMPTIONS = ["math/big modelled as 256-bit non-negative integers (SetBytes/Bytes/FillBytes/Cmp/SetUint64)"]
