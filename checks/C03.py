PROPERTY = "C03"
PACKAGES = ["./aggsender/flows"]
F = "github.com/agglayer/aggkit/aggsender/flows."
OBLIGATIONS = [
    dict(name="C03.c metadata word round-trips first block, span (< 2^32), creation time, certificate type", harness=F + "ZZVerif_C03_Metadata",
         bounds="all from <= to with to-from < 2^32, all creation times and types"),
]
for nblk, ml, tiers in ((2, 0, ("quick", "thorough")), (2, 5, ("thorough",)), (3, 1, ("thorough",)), (3, 0, ("thorough",))):
  for prev, pname in ((0, "none"), (1, "settled"), (2, "in error")):
    if nblk == 3 and prev == 2:
        continue  # three blocks after an in-error certificate do not finish within the thorough time limit (3000 s) on a loaded machine: outside the bound
    OBLIGATIONS.append(dict(
        name="C03.a/b certificate over an L2 history of %d blocks (metadata %d bytes), previous certificate %s: new exit root = previous tree + exits; exits = events of the range" % (nblk, ml, pname),
        harness=F + "ZZVerif_C03_Certificate", params={"NBLK": nblk, "ML": ml, "PREV": prev}, tiers=tiers, reach=["built"], time_limit_s=3000,
        bounds="%d blocks with 0..1 bridge and 0..1 claim each, all field values; previous certificate absent / settled at any block / in error over any sub-range, with or without its previous exit root" % nblk))
for nb, ml, tiers in ((2, 3, ("quick", "thorough")), (3, 1, ("quick", "thorough")), (3, 0, ("thorough",)), (4, 2, ("thorough",))):
    OBLIGATIONS.append(dict(
        name="C03.d %d bridges (origin addresses may coincide, %d metadata bytes each) become exits with their own fields, their own metadata hash and the bridge's leaf hash" % (nb, ml),
        harness=F + "ZZVerif_C03_Exits", params={"NB": nb, "ML": ml}, tiers=tiers, reach=["end"], time_limit_s=1500, unwind=400, bounds="all field values of every bridge"))
ASSUMPTIONS = ["the L2 bridge syncer answers as proved for the real store in C01/C04 (fake in the harness)", "Keccak as uninterpreted function",
               "start exit root = empty tree (fresh network)", "a certificate spans < 2^32 blocks"]
OUTSIDE = "L1 info proofs of imported exits (C09); size / last-block cutting (C17); FEP flow specifics"
