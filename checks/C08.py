PROPERTY = "C08"
PACKAGES = ["./tree", "./l1infotreesync"]
T = "github.com/agglayer/aggkit/tree."
L = "github.com/agglayer/aggkit/l1infotreesync."
OBLIGATIONS = []
for k, tiers in ((3, ("quick", "thorough")), (5, ("thorough",))):
    OBLIGATIONS.append(dict(
        name="C08.a append-only tree, %d appends (restart before any): for every recorded root j and position i<=j, GetLeaf = written leaf and GetProof verifies" % k,
        harness=T + "ZZVerif_C01_AppendBMC", params={"K": k}, tiers=tiers, reach=["end"], time_limit_s=3000,
        bounds="%d leaves (non-zero values), all restart patterns, all (j, i<=j)" % k))
for k, ab, tiers in ((2, 0, ("quick", "thorough")), (2, 1, ("quick", "thorough")), (2, 2, ("thorough",)), (3, 0, ("thorough",)), (3, 1, ("thorough",))):
    OBLIGATIONS.append(dict(
        name="C08.b updatable tree, %d upserts at positions 0..3 (restart before any%s): GetLeaf = value last written as of each root; proofs verify (also for unwritten positions)" % (
            k, "; the last one possibly preceded by a rolled-back transaction that wrote another value" if ab else ""),
        harness=T + "ZZVerif_C08_UpdatableBMC", params={"K": k, "ABORT": ab}, tiers=tiers, reach=["written", "aborted"] if ab else ["written"], time_limit_s=3000,
        bounds="%d upserts, positions 0..3, values non-zero and fresh (never written before), all (root j, position i)%s" % (k, {0: "", 1: "; rolled-back write at the next position (mod 4) with any value", 2: "; rolled-back write at any position with any value"}[ab])))
OBLIGATIONS.append(dict(
    name="C08.d storage unavailable (database handle closed) after two appends: proof, leaf and root queries report an error instead of a proof that does not lead to the root",
    harness=T + "ZZVerif_C08_StorageError", reach=["end"], time_limit_s=1500, bounds="two leaves with arbitrary non-zero values"))


def _shape(tokens):
    v = 0
    for t in reversed(tokens):
        v = v * 4 + t
    return v


for toks, tiers in (([0, 0, 3, 0, 3], ("quick", "thorough")), ([2, 3, 2, 3], ("quick", "thorough")), ([0, 2, 3, 0, 2, 3], ("thorough",))):
    OBLIGATIONS.append(dict(
        name="C08.c proofs served by the L1 info syncer API (L1 info tree by index and index-to-root, rollup exit tree at networkID-1) verify; L1 history shape %s" % toks,
        harness=L + "ZZVerif_C11_Tree", params={"SHAPE": _shape(toks), "RESTART": 1}, tiers=tiers, time_limit_s=3000, max_paths=400000,
        bounds="event sequence fixed, all field values, restart before every block"))
ASSUMPTIONS = ["Keccak as uninterpreted function; collision-freeness for store keys; fresh inputs are not Keccak images computed in the run",
               "SQL model of SQLite; rht as content-addressed table", "roots queried are roots the node has recorded"]
OUTSIDE = "arbitrary (not history-generated) rht contents; proofs for caller-supplied roots that were never recorded; after-reorg proofs are in C04/C07's observation set"
