PROPERTY = "C05"
PACKAGES = ["./sync"]
S = "github.com/agglayer/aggkit/sync."
OBLIGATIONS = []
for iters, tiers, tl in ((2, ("quick", "thorough"), 600), (3, ("quick", "thorough"), 900), (4, ("thorough",), 3300)):
    for fin in (0, 1):
        OBLIGATIONS.append(dict(
            name="C05.c Download loop, %d iterations from an arbitrary start block, finality flag %d: strictly increasing hand-over; events only with their block; "
                 "an arbitrary block with watched logs is handed over exactly once when the last-processed marker has reached it" % (iters, fin),
            harness=S + "ZZVerif_C05_Download", params={"ITER": iters, "FINALIZED": fin}, arith="int", tiers=tiers, reach=["delivered", "passed"],
            time_limit_s=tl, max_paths=400000,
            bounds="all chunk sizes in [1,2^32), all start blocks < 2^40, every tip > last seen at each poll, every finalized pointer (or one failed call), "
                   "range queries answering 0..2 blocks with logs; Skolem block x with watched logs; integer encoding with explicit wrap-around"))
for n, stale, tiers in ((3, 0, ("quick", "thorough")), (4, 0, ("quick", "thorough")), (3, 2, ("quick", "thorough")), (2, 6, ("quick", "thorough")),
                        ):  # 5 and 6 logs, and 4 logs with 3 stale headers, finish alone (about 30 min) but not within the limit on a loaded machine: outside the bound
    OBLIGATIONS.append(dict(
        name="C05.b log query of %d logs (several per block, watched / unwatched topics, removed logs)%s: exactly the blocks with a watched live log, in order, each with its own events in log order"
             % (n, ", %d header answers from another fork" % stale if stale else ""),
        harness=S + "ZZVerif_C05_Logs", params={"N": n, "STALE": stale}, tiers=tiers, reach=["gaveup"] if stale > 5 else ["events", "end"], time_limit_s=1500 if "quick" in tiers else 3000,
        bounds="%d logs, block gaps 0..2, three topics, removed flag, any fork, any start block" % n))
OBLIGATIONS.append(dict(
    name="C05.d driver handleNewBlock: tracked before processed (non-finalized), processed successfully exactly once after transient failures, cancelled on ErrInconsistentState",
    harness=S + "ZZVerif_C05_Driver", reach=["tracked", "inconsistent"],
    bounds="0..2 transient tracker failures, 0..2 transient store failures, inconsistent or not, finalized or not, any block number and hash"))
for tip, tiers in ((3, ("quick", "thorough")), (5, ("thorough",))):
    OBLIGATIONS.append(dict(
        name="C05.e driver Sync loop across a reorg: chain of %d blocks, every block from an arbitrary fork point replaced (watched events moved, added, removed), the detector reports the "
             "first tracked replaced block: afterwards the store holds exactly the final chain's blocks with a watched event, in order" % tip,
        harness=S + "ZZVerif_C05_SyncReorg", params={"TIP": tip}, tiers=tiers, reach=["fork below the reported block", "end"], time_limit_s=1500,
        bounds="%d blocks, every placement of watched events before and after, every fork point and finalized pointer below it" % tip))
ASSUMPTIONS = [
    "C05.e: downloader, store and reorg detector are fakes that answer as C05.a-c / C06 establish (blocks with watched events from the requested block on; first tracked replaced block); "
    "the downloader goroutine runs to completion when started (it only fills the buffered channel); the notification arrives when everything downloaded has been stored",
    "the syncer starts at most one block beyond the tip the node reports first, and the reported tip never decreases (without this the loop can move its "
    "start block backwards: with start > tip+1 a 'safe zone' iteration reports the tip as processed and continues from tip+1 < start)",
    "a range query returns exactly the blocks with watched logs of the requested range, in order (GetLogs / getEventsByBlockRangeWithRetry: C05.a/b)",
    "channels are FIFO queues; no concurrency; a failing finalized-block call happens at most once per run",
]
OUTSIDE = "chain changes during a poll (C06); goroutine scheduling; more than 4 loop iterations; more than 2 blocks with logs per range query"
