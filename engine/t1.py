import sys, time
sys.path.insert(0, '/verif/engine')
from ir import IR
from symex import Engine
import intrinsics
t0=time.time()
ir = IR(sys.argv[1])
print("load", time.time()-t0)
eng = Engine(ir)
intrinsics.install(eng)
import models; models.install(eng)
st = eng.initial_state()
eng.run_function(sys.argv[2], (), st)
print("time", time.time()-t0)
from collections import Counter
print(Counter(k for k,_,_ in eng.results))
for k,i,_ in eng.results:
    if k not in ("returned","assume_false"): print(k,i)
print(eng.stats)
for a in eng.asserts: print(a)
print(eng.reached)
