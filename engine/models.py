"""Further environment models (SQL store, time, context, ...) + helpers shared with the driver."""
import z3

from symex import (Closure, Fork, GoPanic, Iface, MapRef, Opaque, PathEnd, Ptr, Slice, SymStr, Unsupported, NIL_SLICE,
                   _PUSHED, is_sym)
import intrinsics
from intrinsics import REG, PATTERNS, intr, ZZ


def fmt_observe(name, v):
    return "%s=%s" % (name, fmt_go_v(v))


def fmt_go_v(v):
    if isinstance(v, Iface):
        v = v.val
    if isinstance(v, bool):
        return "true" if v else "false"
    if isinstance(v, int):
        return str(v)
    if isinstance(v, str):
        return v
    if isinstance(v, tuple):
        return "[" + " ".join(fmt_go_v(x) for x in v) + "]"
    if v is None:
        return "<nil>"
    return "<?%s>" % type(v).__name__


@intr(ZZ + "Param")
def zz_param(eng, st, fr, args, ins):
    try:
        return eng.params[args[0]]
    except KeyError:
        raise Unsupported("missing param %s" % args[0])


def install(eng):
    eng.intrinsics.update(REG)


# ------------------------------------------------------------------------------------ reflection over *types* only
RKIND = {"bool": 1, "int": 2, "int8": 3, "int16": 4, "int32": 5, "int64": 6, "uint": 7, "uint8": 8, "uint16": 9, "uint32": 10,
         "uint64": 11, "uintptr": 12, "float32": 13, "float64": 14, "string": 24}
RKIND_K = {"array": 17, "chan": 18, "func": 19, "iface": 20, "map": 21, "ptr": 22, "slice": 23, "struct": 25}


def _rtype(tid):
    return Iface("*reflect.rtype", ("rtype", tid))


@intr("reflect.TypeOf")
def reflect_typeof(eng, st, fr, args, ins):
    x = args[0]
    if x is None:
        return None
    return _rtype(x.tid)


@intr("(*reflect.rtype).NumField")
def rtype_numfield(eng, st, fr, args, ins):
    u = eng.ir.under(args[0][1])
    if u["k"] != "struct":
        raise GoPanic("reflect: NumField of non-struct type")
    return len(u["fields"])


@intr("(*reflect.rtype).Kind")
def rtype_kind(eng, st, fr, args, ins):
    u = eng.ir.under(args[0][1])
    if u["k"] == "basic":
        return RKIND.get(u["name"], 0)
    return RKIND_K.get(u["k"], 0)


@intr("(*reflect.rtype).Name", "(*reflect.rtype).String")
def rtype_name(eng, st, fr, args, ins):
    return args[0][1].split("/")[-1]


@intr("(*reflect.rtype).Field")
def rtype_field(eng, st, fr, args, ins):
    u = eng.ir.under(args[0][1])
    i = args[1]
    f = u["fields"][i]
    sf = eng.ir.under("reflect.StructField")
    out = []
    for fld in sf["fields"]:
        n = fld["name"]
        if n == "Name":
            out.append(f["name"])
        elif n == "Tag":
            out.append(f["tag"])
        elif n == "Type":
            out.append(_rtype(f["t"]))
        elif n == "Anonymous":
            out.append(bool(f["emb"]))
        elif n == "PkgPath":
            out.append("" if f["exp"] else "pkg")
        else:
            out.append(eng.zero(fld["t"]))
    return tuple(out)


@intr("(reflect.StructTag).Get")
def structtag_get(eng, st, fr, args, ins):
    import re
    tag, key = args
    for m in re.finditer(r'(\w+):"((?:[^"\\]|\\.)*)"', tag):
        if m.group(1) == key:
            return m.group(2)
    return ""


@intr("(reflect.StructTag).Lookup")
def structtag_lookup(eng, st, fr, args, ins):
    import re
    tag, key = args
    for m in re.finditer(r'(\w+):"((?:[^"\\]|\\.)*)"', tag):
        if m.group(1) == key:
            return (m.group(2), True)
    return ("", False)
