"""Further environment models (SQL store, time, context, ...) + helpers shared with the driver."""
import z3

from symex import (Closure, Fork, GoPanic, Iface, MapRef, Opaque, PathEnd, Ptr, Slice, SymStr, Unsupported, NIL_SLICE,
                   _PUSHED, is_sym)
import intrinsics
from intrinsics import REG, PATTERNS, intr, ZZ
intrinsics.is_arith = __import__('symex').is_arith


def fmt_observe(name, v):
    return "%s=%s" % (name, fmt_go_v(v))


def fmt_go_v(v):
    if isinstance(v, Iface):
        if v.tid.endswith("go-ethereum/common.Hash") and isinstance(v.val, tuple) and all(type(b) is int for b in v.val):
            return "0x" + bytes(v.val).hex()
        v = v.val
    if isinstance(v, bool):
        return "true" if v else "false"
    if isinstance(v, int):
        return str(v)
    if isinstance(v, str):
        return v
    if isinstance(v, tuple):
        return "[" + " ".join(fmt_go_v(x) for x in v) + "]"
    if v is None:
        return "<nil>"
    return "<?%s>" % type(v).__name__


@intr(ZZ + "Param")
def zz_param(eng, st, fr, args, ins):
    try:
        return eng.params[args[0]]
    except KeyError:
        raise Unsupported("missing param %s" % args[0])


def install(eng):
    import sqlmodel
    sqlmodel.install(eng)
    C = "github.com/ethereum/go-ethereum/common."
    for nm, v in (("Big0", 0), ("Big1", 1), ("Big2", 2), ("Big3", 3), ("Big32", 32), ("Big256", 256), ("Big257", 257)):
        eng.external_globals[C + nm] = (lambda v: (lambda e, st: intrinsics.big_new(e, st, v)))(v)
    eng.intrinsics.update(REG)
    install_abigen(eng)


# ------------------------------------------------------------------------------------ reflection over *types* only
RKIND = {"bool": 1, "int": 2, "int8": 3, "int16": 4, "int32": 5, "int64": 6, "uint": 7, "uint8": 8, "uint16": 9, "uint32": 10,
         "uint64": 11, "uintptr": 12, "float32": 13, "float64": 14, "string": 24}
RKIND_K = {"array": 17, "chan": 18, "func": 19, "iface": 20, "map": 21, "ptr": 22, "slice": 23, "struct": 25}


def _rtype(tid):
    return Iface("*reflect.rtype", ("rtype", tid))


@intr("reflect.TypeOf")
def reflect_typeof(eng, st, fr, args, ins):
    x = args[0]
    if x is None:
        return None
    return _rtype(x.tid)


@intr("(*reflect.rtype).NumField")
def rtype_numfield(eng, st, fr, args, ins):
    u = eng.ir.under(args[0][1])
    if u["k"] != "struct":
        raise GoPanic("reflect: NumField of non-struct type")
    return len(u["fields"])


@intr("(*reflect.rtype).Kind")
def rtype_kind(eng, st, fr, args, ins):
    u = eng.ir.under(args[0][1])
    if u["k"] == "basic":
        return RKIND.get(u["name"], 0)
    return RKIND_K.get(u["k"], 0)


@intr("(*reflect.rtype).Name", "(*reflect.rtype).String")
def rtype_name(eng, st, fr, args, ins):
    return args[0][1].split("/")[-1]


@intr("(*reflect.rtype).Field")
def rtype_field(eng, st, fr, args, ins):
    u = eng.ir.under(args[0][1])
    i = args[1]
    f = u["fields"][i]
    sf = eng.ir.under("reflect.StructField")
    out = []
    for fld in sf["fields"]:
        n = fld["name"]
        if n == "Name":
            out.append(f["name"])
        elif n == "Tag":
            out.append(f["tag"])
        elif n == "Type":
            out.append(_rtype(f["t"]))
        elif n == "Anonymous":
            out.append(bool(f["emb"]))
        elif n == "PkgPath":
            out.append("" if f["exp"] else "pkg")
        else:
            out.append(eng.zero(fld["t"]))
    return tuple(out)


@intr("(reflect.StructTag).Get")
def structtag_get(eng, st, fr, args, ins):
    import re
    tag, key = args
    for m in re.finditer(r'(\w+):"((?:[^"\\]|\\.)*)"', tag):
        if m.group(1) == key:
            return m.group(2)
    return ""


@intr("(reflect.StructTag).Lookup")
def structtag_lookup(eng, st, fr, args, ins):
    import re
    tag, key = args
    for m in re.finditer(r'(\w+):"((?:[^"\\]|\\.)*)"', tag):
        if m.group(1) == key:
            return (m.group(2), True)
    return ("", False)


# ------------------------------------------------------------------------------------ context
CTX_T = "*zzverif.ctx"


def _new_ctx(eng, st, parent):
    p = eng.alloc_val(st, "zz:ctx", (False, parent))
    return Iface(CTX_T, p)


def ctx_cancelled(eng, st, ctx):
    if ctx is None or not isinstance(ctx, Iface) or ctx.tid != CTX_T:
        return False
    c, parent = eng.load(st, ctx.val)
    if c:
        return True
    return ctx_cancelled(eng, st, parent) if parent is not None else False


@intr("context.Background", "context.TODO")
def ctx_background(eng, st, fr, args, ins):
    return _new_ctx(eng, st, None)


@intr("context.WithCancel")
def ctx_withcancel(eng, st, fr, args, ins):
    c = _new_ctx(eng, st, args[0])
    return (c, Closure("zzverif.cancelctx", (c.val,)))


@intr("context.WithTimeout", "context.WithDeadline")
def ctx_withtimeout(eng, st, fr, args, ins):
    c = _new_ctx(eng, st, args[0])
    return (c, Closure("zzverif.cancelctx", (c.val,)))


@intr("context.WithValue")
def ctx_withvalue(eng, st, fr, args, ins):
    return _new_ctx(eng, st, args[0])


@intr("zzverif.cancelctx")
def ctx_cancel(eng, st, fr, args, ins):
    p = eng.current_binds[0]
    c, parent = eng.load(st, p)
    eng.store(st, p, (True, parent))
    return None


@intr("(" + CTX_T + ").Err")
def ctx_err(eng, st, fr, args, ins):
    ctx = Iface(CTX_T, args[0])
    if ctx_cancelled(eng, st, ctx):
        return eng.load(st, eng.global_ptr(st, "context.Canceled"))
    return None


@intr("(" + CTX_T + ").Value")
def ctx_value(eng, st, fr, args, ins):
    return None


@intr("(" + CTX_T + ").Done")
def ctx_done(eng, st, fr, args, ins):
    from symex import GoChan, ChanRef, st_oid
    ctx = Iface(CTX_T, args[0])
    oid = st_oid(st)
    st.heap[oid] = GoChan((), 0, ctx_cancelled(eng, st, ctx))
    eng.objtype[oid] = "chan struct{}"
    if "chan struct{}" not in eng.ir.types:
        eng.ir.types["chan struct{}"] = {"k": "chan", "elem": "struct{}"}
        eng.ir.types.setdefault("struct{}", {"k": "struct", "fields": []})
    return ChanRef(oid)


# ------------------------------------------------------------------------------------ db helpers using reflection
@intr("github.com/agglayer/aggkit/db.SlicePtrsToSlice")
def slice_ptrs_to_slice(eng, st, fr, args, ins):
    x = args[0]
    su = eng.ir.under(x.tid)
    et = eng.ir.under(su["elem"])["elem"]
    elems = tuple(eng.load(st, p) for p in eng.slice_elems(st, x.val))
    tid = "[]" + et
    if tid not in eng.ir.types:
        eng.ir.types[tid] = {"k": "slice", "elem": et}
    return Iface(tid, eng.new_slice(st, et, elems))


@intr("github.com/agglayer/aggkit/db.SliceToSlicePtrs")
def slice_to_slice_ptrs(eng, st, fr, args, ins):
    x = args[0]
    su = eng.ir.under(x.tid)
    et = su["elem"]
    s = x.val
    ptrs = tuple(Ptr(s.arr.obj, s.arr.path + (s.off + i,)) for i in range(s.len)) if s is not None and s.arr is not None else ()
    pt = "*" + et
    if pt not in eng.ir.types:
        eng.ir.types[pt] = {"k": "ptr", "elem": et}
    tid = "[]" + pt
    if tid not in eng.ir.types:
        eng.ir.types[tid] = {"k": "slice", "elem": pt}
    return Iface(tid, eng.new_slice(st, pt, ptrs))


@intr(ZZ + "TempDB")
def zz_tempdb(eng, st, fr, args, ins):
    k = st.counters.get("__tempdb", 0)
    st.counters["__tempdb"] = k + 1
    return "zzdb%d/%s.sqlite" % (k, args[0])


@intr(ZZ + "Note")
def zz_note(eng, st, fr, args, ins):
    import os
    if os.environ.get("VERIF_DEBUG"):
        v = args[1]
        if isinstance(v, Iface) and v.tid in ("*errors.errorString", "*fmt.wrapError"):
            v = intrinsics.err_message(eng, st, v)
        elif isinstance(v, Iface) and v.tid == "*github.com/russross/meddler.dbErr":
            v = ("dbErr", eng.load(st, v.val))
        print("NOTE", args[0], v)
    return None


# ------------------------------------------------------------------------------------ time
def _mk_time(eng, sec):
    u = eng.ir.under("time.Time")
    vals = []
    for f in u["fields"]:
        if f["name"] == "ext":
            vals.append(sec)
        else:
            vals.append(eng.zero(f["t"]))
    return tuple(vals)


def _time_sec(eng, t):
    u = eng.ir.under("time.Time")
    for i, f in enumerate(u["fields"]):
        if f["name"] == "ext":
            return t[i]
    raise Unsupported("time.Time layout")


@intr("time.Now")
def time_now(eng, st, fr, args, ins):
    now = eng.fresh(st, "time.now", 64)
    if is_sym(now):
        prev = st.world.get("time.last")
        lo = prev if prev is not None else (z3.BitVecVal(0, 64) if not intrinsics.is_arith(now) else 0)
        if intrinsics.is_arith(now):
            st.assume(z3.And(now >= lo, now < (1 << 40)))
        else:
            st.assume(z3.And(z3.UGE(now, lo), z3.ULT(now, z3.BitVecVal(1 << 40, 64))))
        st.world["time.last"] = now
    return _mk_time(eng, now)


@intr("(time.Time).UTC", "(time.Time).Local", "(time.Time).Round", "(time.Time).Truncate")
def time_utc(eng, st, fr, args, ins):
    return args[0]


@intr("(time.Time).Unix")
def time_unix(eng, st, fr, args, ins):
    return _time_sec(eng, args[0])


@intr("(time.Time).UnixNano", "(time.Time).UnixMilli")
def time_unixnano(eng, st, fr, args, ins):
    raise Unsupported("UnixNano")


@intr("time.Unix")
def time_unix_ctor(eng, st, fr, args, ins):
    return _mk_time(eng, args[0])


@intr("time.Since")
def time_since(eng, st, fr, args, ins):
    now = _time_sec(eng, time_now(eng, st, fr, (), ins))
    return eng.int_binop(st, "-", now, _time_sec(eng, args[0]), 64, True)


@intr("(time.Time).Sub")
def time_sub(eng, st, fr, args, ins):
    return eng.int_binop(st, "-", _time_sec(eng, args[0]), _time_sec(eng, args[1]), 64, True)


@intr("(time.Time).Add")
def time_add(eng, st, fr, args, ins):
    return _mk_time(eng, eng.int_binop(st, "+", _time_sec(eng, args[0]), args[1], 64, True))


@intr("(time.Time).Before")
def time_before(eng, st, fr, args, ins):
    return eng.int_binop(st, "<", _time_sec(eng, args[0]), _time_sec(eng, args[1]), 64, True)


@intr("(time.Time).After")
def time_after(eng, st, fr, args, ins):
    return eng.int_binop(st, ">", _time_sec(eng, args[0]), _time_sec(eng, args[1]), 64, True)


@intr("(time.Time).IsZero")
def time_iszero(eng, st, fr, args, ins):
    return eng.eq(_time_sec(eng, args[0]), 0, "int64")


@intr("time.Sleep")
def time_sleep(eng, st, fr, args, ins):
    return None


@intr("(time.Duration).String", "(time.Time).String", "(time.Time).Format")
def time_string(eng, st, fr, args, ins):
    return SymStr("opaque", "time")


@intr("(time.Duration).Seconds", "(time.Duration).Minutes", "(time.Duration).Hours")
def dur_seconds(eng, st, fr, args, ins):
    return 0.0


# ------------------------------------------------------------------------------------ ABI calldata as abstract constructor (C20)
class CalldataCarrier:
    __slots__ = ("kind", "fields")

    def __init__(self, kind, fields):
        self.kind = kind
        self.fields = fields  # dict name -> (tid, value)

    def __eq__(self, o):
        return self is o

    def __hash__(self):
        return id(self)


SELECTORS = {0: "ccaa2d11", 1: "f5efcd79", 2: "2cffd02e", 3: "2d2c9d94"}


@intr("github.com/agglayer/aggkit/bridgesync.zzPackClaim")
def zz_pack_claim(eng, st, fr, args, ins):
    kind, ccp = args
    tid = "github.com/agglayer/aggkit/bridgesync.zzClaimCall"
    u = eng.ir.under(tid)
    v = eng.load(st, ccp)
    fields = {f["name"]: (f["t"], v[i]) for i, f in enumerate(u["fields"])}
    sel = tuple(bytes.fromhex(SELECTORS[kind]))
    return eng.new_slice(st, "uint8", sel + (CalldataCarrier(kind, fields),))


@intr("(*github.com/ethereum/go-ethereum/accounts/abi/bind.MetaData).GetAbi")
def metadata_getabi(eng, st, fr, args, ins):
    return (eng.alloc(st, "github.com/ethereum/go-ethereum/accounts/abi.ABI"), None)


@intr("(*github.com/ethereum/go-ethereum/accounts/abi.ABI).MethodById")
def abi_methodbyid(eng, st, fr, args, ins):
    return (eng.alloc(st, "github.com/ethereum/go-ethereum/accounts/abi.Method"), None)


@intr("(github.com/ethereum/go-ethereum/accounts/abi.Arguments).Unpack")
def abi_args_unpack(eng, st, fr, args, ins):
    data = eng.slice_elems(st, args[1])
    if not data or not isinstance(data[0], CalldataCarrier):
        raise Unsupported("Arguments.Unpack on bytes that were not produced by zzPackClaim")
    c = data[0]
    f = c.fields
    if c.kind < 2:
        order = ["proofLER", "proofRER", "globalIndex", "mer", "rer", "origNet", "origAddr", "destNet", "destAddr", "amount", "metadata"]
        vals = [Iface(eng.ir.canon(f[n][0]), f[n][1]) for n in order]
    else:
        gi = intrinsics.big_get(eng, st, f["globalIndex"][1])
        idx = gi if not is_sym(gi) else z3.simplify(z3.Extract(31, 0, gi))
        if not is_sym(idx):
            idx &= 0xffffffff
        vals = [Iface(eng.ir.canon(f["proofLER"][0]), f["proofLER"][1]), Iface("uint32", idx)]
        for n in ("mer", "rer", "origNet", "origAddr", "destNet", "destAddr", "amount", "metadata"):
            vals.append(Iface(eng.ir.canon(f[n][0]), f[n][1]))
    tid = "[]interface{}"
    if "interface{}" not in eng.ir.types:
        eng.ir.types["interface{}"] = {"k": "iface", "methods": []}
    et = "any" if "any" in eng.ir.types else "interface{}"
    return (eng.new_slice(st, et, tuple(vals)), None)


# ------------------------------------------------------------------------------------ sort.Slice / errgroup / Header.Hash
@intr("sort.Slice", "sort.SliceStable")
def sort_slice(eng, st, fr, args, ins):
    x, less = args
    s = x.val
    n = s.len if s is not None else 0
    swap = Closure("zzverif.swapelems", (s,))
    return eng.push_call(st, ZZ + "InsertionSort", [n, less, swap])


@intr("zzverif.swapelems")
def zz_swapelems(eng, st, fr, args, ins):
    s = eng.current_binds[0]
    i, j = args
    if is_sym(i) or is_sym(j):
        raise Unsupported("swap with symbolic positions")
    arr = list(eng.load(st, s.arr))
    a, b = s.off + i, s.off + j
    arr[a], arr[b] = arr[b], arr[a]
    eng.store(st, s.arr, tuple(arr))
    return None


EG = "(*golang.org/x/sync/errgroup.Group)."


@intr(EG + "Go")
def errgroup_go(eng, st, fr, args, ins):
    # the function runs inline, sequentially; its result is collected when it returns (Engine.do_return)
    g, f = args
    st.world["errgroup_cur"] = g.obj if g is not None else None
    r = eng.push_call(st, f.fn, [], f.binds)
    st.frames[-1].ret = ("errgroup", g.obj if g is not None else None)
    return r


@intr(EG + "Wait")
def errgroup_wait(eng, st, fr, args, ins):
    g = args[0]
    return st.world.get(("errgroup_err", g.obj if g is not None else None))


@intr(EG + "SetLimit")
def errgroup_setlimit(eng, st, fr, args, ins):
    return None


@intr("(*github.com/ethereum/go-ethereum/core/types.Header).Hash")
def header_hash(eng, st, fr, args, ins):
    """block hash as an uninterpreted function of (ParentHash, Number, Time, Extra-length is ignored): enough to tell canonical
    from replaced blocks; natively it is the real RLP/Keccak hash"""
    h = eng.load(st, args[0])
    u = eng.ir.under("github.com/ethereum/go-ethereum/core/types.Header")
    names = [f["name"] for f in u["fields"]]
    parent = h[names.index("ParentHash")]
    root = h[names.index("Root")]
    num = h[names.index("Number")]
    tm = h[names.index("Time")]
    n = intrinsics.big_get(eng, st, num) if num is not None else 0
    nb = tuple((n & ((1 << 64) - 1)).to_bytes(8, "big")) if not is_sym(n) else eng.unpack(z3.Extract(63, 0, n) if n.size() > 64 else n, 8)
    tb = tuple(tm.to_bytes(8, "big")) if not is_sym(tm) else eng.unpack(tm, 8)
    K = eng.keccak_uf(80)
    arg = eng.pack(tuple(parent) + tuple(root) + nb + tb)
    # block hashes are collision-free: two headers with the same hash have the same (parent, root, number, time).  The code
    # under check compares block hashes with ==, so this is asserted as an axiom over the headers hashed in this run.
    seen = eng.__dict__.setdefault("_header_hash_args", [])
    if is_sym(arg) and not any(arg.get_id() == q.get_id() for q in seen):
        for q in seen:
            eng._facts.append(z3.Implies(K(q) == K(arg), q == arg))
        seen.append(arg)
    elif not is_sym(arg):
        pass
    term = K(arg)
    return eng.unpack(term, 32)


@intr("runtime.Version")
def runtime_version(eng, st, fr, args, ins):
    return "go1.24.4"


@intr("runtime.GOOS", "runtime.GOARCH")
def runtime_goos(eng, st, fr, args, ins):
    return "linux"


# ---- time.Ticker built by a harness (zzNewTicker): Stop is a no-op (as it is natively for a Ticker not made by NewTicker)
@intr("(*time.Ticker).Stop", "(*time.Ticker).Reset")
def ticker_stop(eng, st, fr, args, ins):
    return None


# ---- encoding/json.Marshal: the text is never interpreted by the code under check (it is stored as a blob/text column);
# it is modelled as 8 unconstrained bytes and a nil error
@intr("encoding/json.Marshal")
def json_marshal(eng, st, fr, args, ins):
    v = eng.fresh(st, "json.marshal", 64, kind="forcebv")
    bs = tuple(v.to_bytes(8, "big")) if not is_sym(v) else eng.unpack(v, 8)
    return (eng.new_slice(st, "uint8", bs), None)


# ---- time.NewTicker: wall-clock time is not modelled; a ticker has a tick available whenever the code looks at it, up to
# TICKER_TICKS times (then it is silent). Code that polls on a ticker is thereby explored for every number of polls up to that
# bound; which other select cases are ready at the same time still forks.
TICKER_TICKS = 12


@intr("time.NewTicker")
def time_newticker(eng, st, fr, args, ins):
    from symex import GoChan, ChanRef, st_oid
    oid = st_oid(st)
    zt = eng.zero("time.Time")
    st.heap[oid] = GoChan((zt,) * TICKER_TICKS, TICKER_TICKS, False)
    eng.objtype[oid] = "<-chan time.Time"
    return eng.alloc_val(st, "time.Ticker", (ChanRef(oid), True))


# ---- time.After: the timer may have fired whenever the code looks at its channel (a select over it and other ready cases forks)
@intr("time.After")
def time_after_chan(eng, st, fr, args, ins):
    from symex import GoChan, ChanRef, st_oid
    oid = st_oid(st)
    st.heap[oid] = GoChan((eng.zero("time.Time"),), 1, False)
    eng.objtype[oid] = "<-chan time.Time"
    return ChanRef(oid)


# ---- gin request/response (zzverif.HTTPGet / HTTPResult): a *gin.Context is a heap object (query pairs, recorded response)
GIN_T = "github.com/gin-gonic/gin.Context"


@intr("github.com/agglayer/aggkit/internal/zzverifhttp.HTTPGet")
def zz_httpget(eng, st, fr, args, ins):
    sl = args[0]
    vals = [] if sl is None or sl is NIL_SLICE else [eng.load(st, Ptr(sl.arr.obj, sl.arr.path + (sl.off + i,))) for i in range(sl.len)]
    if len(vals) % 2:
        raise GoPanic("zzverif.HTTPGet: odd number of arguments")
    q = tuple((vals[i], vals[i + 1]) for i in range(0, len(vals), 2))
    return eng.alloc_val(st, "zz:gin", (q, None))


@intr("(*" + GIN_T + ").Query")
def gin_query(eng, st, fr, args, ins):
    q, _ = eng.load(st, args[0])
    for k, v in q:
        if k == args[1]:
            return v
    return ""


@intr("(*" + GIN_T + ").JSON")
def gin_json(eng, st, fr, args, ins):
    q, _ = eng.load(st, args[0])
    eng.store(st, args[0], (q, (args[1], args[2])))
    return None


@intr("(*" + GIN_T + ").Done", "(*" + GIN_T + ").Err", "(*" + GIN_T + ").Value", "(*" + GIN_T + ").Deadline")
def gin_ctx_methods(eng, st, fr, args, ins):
    return None


@intr("github.com/agglayer/aggkit/internal/zzverifhttp.HTTPResult")
def zz_httpresult(eng, st, fr, args, ins):
    q, resp = eng.load(st, args[0])
    if resp is None:
        return 0
    code, obj = resp
    out = args[1]
    if isinstance(out, Iface) and isinstance(obj, Iface):
        # out: pointer to T ; obj: T or *T
        if out.tid == "*" + obj.tid:
            eng.store(st, out.val, obj.val)
        elif out.tid == obj.tid:
            eng.store(st, out.val, eng.load(st, obj.val))
    return code


# ---- abigen contract bindings: constructors return an opaque binding; Parse<Event>(log) decodes the log by the event's ABI
# (indexed arguments from the topics, the others from 32-byte words of the data), as the generated code does with
# bind.BoundContract.UnpackLog. The event table lists the events the repository's appenders use.
CT = "github.com/0xPolygon/cdk-contracts-tooling/contracts/"
ABIGEN_EVENTS = {
    # (package path suffix, event): [(field, source, position, kind)]
    ("polygonzkevmglobalexitrootv2", "UpdateL1InfoTree"): [("MainnetExitRoot", "topic", 1, "bytes32"), ("RollupExitRoot", "topic", 2, "bytes32")],
    ("polygonzkevmglobalexitrootv2", "UpdateL1InfoTreeV2"): [("CurrentL1InfoRoot", "data", 0, "bytes32"), ("LeafCount", "topic", 1, "uint32"),
                                                             ("Blockhash", "data", 1, "uint256"), ("MinTimestamp", "data", 2, "uint64")],
    ("polygonzkevmglobalexitrootv2", "InitL1InfoRootMap"): [("LeafCount", "data", 0, "uint32"), ("CurrentL1InfoRoot", "data", 1, "bytes32")],
    ("globalexitrootmanagerl2sovereignchain", "UpdateHashChainValue"): [("NewGlobalExitRoot", "topic", 1, "bytes32"), ("NewHashChainValue", "topic", 2, "bytes32")],
    ("globalexitrootmanagerl2sovereignchain", "UpdateRemovalHashChainValue"): [("RemovedGlobalExitRoot", "topic", 1, "bytes32"),
                                                                              ("NewRemovalHashChainValue", "topic", 2, "bytes32")],
    ("polygonrollupmanager", "VerifyBatches"): [("RollupID", "topic", 1, "uint32"), ("NumBatch", "data", 0, "uint64"), ("StateRoot", "data", 1, "bytes32"),
                                                ("ExitRoot", "data", 2, "bytes32"), ("Aggregator", "topic", 2, "address")],
    ("polygonrollupmanager", "VerifyBatchesTrustedAggregator"): [("RollupID", "topic", 1, "uint32"), ("NumBatch", "data", 0, "uint64"), ("StateRoot", "data", 1, "bytes32"),
                                                                 ("ExitRoot", "data", 2, "bytes32"), ("Aggregator", "topic", 2, "address")],
}
ABIGEN_SIGS = {
    "UpdateL1InfoTree": "UpdateL1InfoTree(bytes32,bytes32)", "UpdateL1InfoTreeV2": "UpdateL1InfoTreeV2(bytes32,uint32,uint256,uint64)",
    "InitL1InfoRootMap": "InitL1InfoRootMap(uint32,bytes32)", "VerifyBatches": "VerifyBatches(uint32,uint64,bytes32,bytes32,address)",
    "VerifyBatchesTrustedAggregator": "VerifyBatchesTrustedAggregator(uint32,uint64,bytes32,bytes32,address)",
    "UpdateHashChainValue": "UpdateHashChainValue(bytes32,bytes32)", "UpdateRemovalHashChainValue": "UpdateRemovalHashChainValue(bytes32,bytes32)",
}


def _abigen_new(eng, st, fr, args, ins):
    return (eng.alloc_val(st, "zz:binding", ("binding", args[0], args[1])), None)


# read calls of a binding with one bytes32 argument and one uint256 result: run as zzverifeth.CallWord over the backend the
# binding was created with (the harness's fake node answers eth_call)
ABIGEN_CALLS = {("polygonzkevmglobalexitrootv2", "GlobalExitRootMap"): "globalExitRootMap(bytes32)"}
CALLWORD = "github.com/agglayer/aggkit/internal/zzverifeth.CallWord"


def _abigen_call(eng, st, fr, args, ins, sig):
    import keccak as kk
    recv = args[0]
    if recv is None or isinstance(recv, Opaque) or eng.objtype.get(recv.obj) != "zz:binding":
        raise Unsupported("contract call on a binding not created by a modelled constructor")
    _, addr, backend = st.heap[recv.obj]
    if backend is None:
        raise Unsupported("contract call on a binding without backend")
    if CALLWORD not in eng.ir.funcs:
        raise Unsupported("contract call: package internal/zzverifeth is not loaded")
    sel = tuple(kk.keccak256(sig.encode())[:4])
    return eng.push_call(st, CALLWORD, [backend, addr, sel, args[2]])


def _abigen_parse(eng, st, fr, args, ins, fname):
    import re
    import keccak as kk
    m = re.match(r"\(\*(.*)/(\w+)\.(\w+)Filterer\)\.Parse(\w+)$", fname)
    if not m:
        raise Unsupported("abigen call " + fname)
    pkgpath, pkg, contract, event = m.group(1) + "/" + m.group(2), m.group(2), m.group(3), m.group(4)
    spec = ABIGEN_EVENTS.get((pkg, event))
    if spec is None:
        raise Unsupported("abigen event %s.%s is not in the model's table" % (pkg, event))
    log = args[1]
    lu = eng.ir.under("github.com/ethereum/go-ethereum/core/types.Log")
    names = [f["name"] for f in lu["fields"]]
    topics = eng.slice_elems(st, log[names.index("Topics")]) if log[names.index("Topics")] is not None else []
    dsl = log[names.index("Data")]
    data = list(eng.slice_elems(st, dsl)) if dsl is not None and dsl is not NIL_SLICE else []
    sig = tuple(kk.keccak256(ABIGEN_SIGS[event].encode()))
    if not topics:
        return (None, intrinsics.new_error(eng, st, "no event signature"))
    t0 = topics[0]
    if any(is_sym(b) for b in t0) or tuple(t0) != sig:
        if any(is_sym(b) for b in t0):
            raise Unsupported("abigen parse with a symbolic event signature")
        return (None, intrinsics.new_error(eng, st, "event signature mismatch"))
    tid = "%s.%s%s" % (pkgpath, contract, event)
    su = eng.ir.under(tid)
    vals = {f["name"]: eng.zero(f["t"]) for f in su["fields"]}

    def word(src, pos):
        if src == "topic":
            if pos >= len(topics):
                raise Unsupported("abigen parse: missing topic")
            return tuple(topics[pos])
        w = tuple(data[32 * pos:32 * pos + 32])
        if len(w) != 32:
            raise Unsupported("abigen parse: short data")
        return w
    for field, src, pos, kind in spec:
        w = word(src, pos)
        if kind == "bytes32":
            vals[field] = w
        elif kind == "address":
            vals[field] = w[12:]
        elif kind in ("uint32", "uint64"):
            n = 4 if kind == "uint32" else 8
            if src == "data":
                hi = w[:32 - n]
                if any(is_sym(b) for b in hi):
                    raise Unsupported("abigen parse: symbolic padding of an integer word")
                if any(hi):
                    return (None, intrinsics.new_error(eng, st, "abi: improperly encoded %s value" % kind))
            v = eng.pack(w[32 - n:])
            vals[field] = v.as_long() if z3.is_bv_value(v) else v
        elif kind == "uint256":
            v = eng.pack(w)
            vals[field] = intrinsics.big_new(eng, st, v.as_long() if z3.is_bv_value(v) else v)
    vals["Raw"] = log
    return (eng.alloc_val(st, tid, tuple(vals[f["name"]] for f in su["fields"])), None)


def _abigen_pattern(eng, st, fr, args, ins, fname=None):
    raise Unsupported("abigen binding call")


ABIGEN_PKGS = {
    "polygonzkevmglobalexitrootv2": ("pp/l2-sovereign-chain/polygonzkevmglobalexitrootv2", "Polygonzkevmglobalexitrootv2"),
    "polygonrollupmanager": ("fep/etrog/polygonrollupmanager", "Polygonrollupmanager"),
    "globalexitrootmanagerl2sovereignchain": ("pp/l2-sovereign-chain/globalexitrootmanagerl2sovereignchain", "Globalexitrootmanagerl2sovereignchain"),
}


def install_abigen(eng):
    for pkg, (full, contract) in ABIGEN_PKGS.items():
        eng.intrinsics[CT + full + ".New" + contract] = _abigen_new
    for (pkg, event) in ABIGEN_EVENTS:
        full, contract = ABIGEN_PKGS[pkg]
        name = "(*%s%s.%sFilterer).Parse%s" % (CT, full, contract, event)
        eng.intrinsics[name] = (lambda e, s, f, a, i, n=name: _abigen_parse(e, s, f, a, i, n))
    for (pkg, meth), sig in ABIGEN_CALLS.items():
        full, contract = ABIGEN_PKGS[pkg]
        name = "(*%s%s.%sCaller).%s" % (CT, full, contract, meth)
        eng.intrinsics[name] = (lambda e, s, f, a, i, g=sig: _abigen_call(e, s, f, a, i, g))


# ---- regexp on concrete strings (table-name validation and the like)
@intr("regexp.MustCompile")
def regexp_mustcompile(eng, st, fr, args, ins):
    if not isinstance(args[0], str):
        raise Unsupported("regexp.MustCompile of a symbolic pattern")
    return eng.alloc_val(st, "zz:regexp", (args[0],))


@intr("(*regexp.Regexp).MatchString")
def regexp_matchstring(eng, st, fr, args, ins):
    import re
    r, s = args
    if isinstance(r, Opaque) or r is None:
        raise Unsupported("regexp not created by a modelled call")
    pat = eng.load(st, r)[0]
    if not isinstance(s, str):
        raise Unsupported("regexp match on a symbolic string")
    return re.search(pat, s) is not None
