"""Further environment models (SQL store, time, context, ...) + helpers shared with the driver."""
import z3

from symex import (Closure, Fork, GoPanic, Iface, MapRef, Opaque, PathEnd, Ptr, Slice, SymStr, Unsupported, NIL_SLICE,
                   _PUSHED, is_sym)
import intrinsics
from intrinsics import REG, PATTERNS, intr, ZZ


def fmt_observe(name, v):
    return "%s=%s" % (name, fmt_go_v(v))


def fmt_go_v(v):
    if isinstance(v, Iface):
        v = v.val
    if isinstance(v, bool):
        return "true" if v else "false"
    if isinstance(v, int):
        return str(v)
    if isinstance(v, str):
        return v
    if isinstance(v, tuple):
        return "[" + " ".join(fmt_go_v(x) for x in v) + "]"
    if v is None:
        return "<nil>"
    return "<?%s>" % type(v).__name__


@intr(ZZ + "Param")
def zz_param(eng, st, fr, args, ins):
    try:
        return eng.params[args[0]]
    except KeyError:
        raise Unsupported("missing param %s" % args[0])


def install(eng):
    eng.intrinsics.update(REG)
