"""Environment models (DESIGN.md section 4): harness API, errors/fmt, logging, keccak, math/big, binary, common.*"""
import z3

from keccak import keccak256
from symex import (Closure, Fork, GoPanic, Iface, MapRef, Opaque, PathEnd, Ptr, Slice, SymStr, Unsupported, NIL_SLICE,
                   _PUSHED, b_and, b_not, b_or, is_sym, norm, simp, tobool, tobv, concretize_bv, new_obj_id, GoChan, ChanRef)

ZZ = "github.com/agglayer/aggkit/internal/zzverif."
REG = {}
PATTERNS = []


def intr(*names):
    def deco(f):
        for n in names:
            REG[n] = f
        return f
    return deco


def install(eng):
    eng.intrinsics.update(REG)
    eng.intrinsic_patterns = PATTERNS
    eng.ext_methods.update({
        "*errors.errorString": {"Error"},
        "*fmt.wrapError": {"Error", "Unwrap"},
        "*zzverif.keccakState": {"Write", "Sum", "Reset", "Size", "BlockSize"},
        "*zzverif.ctx": {"Done", "Err", "Value", "Deadline"},
    })
    T = eng.ir.types
    T.setdefault("zz:errorString", {"k": "struct", "fields": [{"name": "s", "t": "string", "tag": "", "emb": False, "exp": False}]})
    T.setdefault("zz:wrapError", {"k": "struct", "fields": [{"name": "msg", "t": "string", "tag": "", "emb": False, "exp": False},
                                                            {"name": "err", "t": "error", "tag": "", "emb": False, "exp": False}]})
    T.setdefault("*errors.errorString", {"k": "ptr", "elem": "zz:errorString"})
    T.setdefault("*fmt.wrapError", {"k": "ptr", "elem": "zz:wrapError"})
    T.setdefault("*github.com/russross/meddler.dbErr", {"k": "ptr", "elem": "zz:wrapError"})
    T.setdefault("zz:meddlerDbErr", T["zz:wrapError"])
    T.setdefault("zz:keccakState", {"k": "struct", "fields": []})
    T.setdefault("*zzverif.keccakState", {"k": "ptr", "elem": "zz:keccakState"})
    T.setdefault("zz:ctx", {"k": "struct", "fields": []})
    T.setdefault("*zzverif.ctx", {"k": "ptr", "elem": "zz:ctx"})
    orig = eng.call_value

    def call_value(st, fr, fnv, args, ins, deferred=False):
        if isinstance(fnv, Closure) and fnv.fn not in eng.intrinsics:
            name = fnv.fn
            f = eng.ir.funcs.get(name)
            for pfx, h in PATTERNS:
                if name.startswith(pfx):
                    eng.intrinsics[name] = h
                    break
        return orig(st, fr, fnv, args, ins, deferred)
    eng.call_value = call_value


def ret_fork(eng, ins, alts):
    """alts: [(cond, value)] -> Fork whose thunks complete the call instruction with that value"""
    def mk(v):
        def thunk(s):
            f = s.frames[-1]
            if callable(v):
                val = v(s)
            else:
                val = v
            if ins is not None and "r" in ins:
                f.locals[ins["r"]] = val
            f.i += 1
        return thunk
    return Fork([(c, mk(v)) for c, v in alts])


# ------------------------------------------------------------------------------------ harness API
def _nondet_int(bits, signed=False):
    def h(eng, st, fr, args, ins):
        return eng.fresh(st, args[0], bits)
    return h


REG[ZZ + "U64"] = _nondet_int(64)
REG[ZZ + "U32"] = _nondet_int(32)
REG[ZZ + "U16"] = _nondet_int(16)
REG[ZZ + "U8"] = _nondet_int(8)
REG[ZZ + "I64"] = _nondet_int(64, True)


@intr(ZZ + "Bool")
def zz_bool(eng, st, fr, args, ins):
    b = eng.fresh(st, args[0], 8, kind="forcebv")
    if not is_sym(b):
        return b & 1 == 1
    return simp(z3.Extract(0, 0, b) == z3.BitVecVal(1, 1))


@intr(ZZ + "Int")
def zz_int(eng, st, fr, args, ins):
    name, lo, hi = args
    v = eng.fresh(st, name, 64, kind="forcebv")
    if not is_sym(v):
        v = norm(v, 64, True)
        if v < lo or v > hi:
            raise PathEnd("assume_false")
        return v
    st.assume(z3.And(v >= z3.BitVecVal(lo, 64), v <= z3.BitVecVal(hi, 64)))
    # concretise by forking: harness loops over a nondet bound need concrete values
    alts = []
    for k in range(lo, hi + 1):
        c = v == z3.BitVecVal(k, 64)
        if eng.feasible(st, c):
            alts.append((c, k))
    if not alts:
        raise PathEnd("assume_false")
    if len(alts) == 1:
        st.assume(alts[0][0])
        return alts[0][1]
    raise ret_fork(eng, ins, alts)


def _nondet_bytes(n):
    def h(eng, st, fr, args, ins):
        v = eng.fresh(st, args[0], 8 * n, kind="forcebv")
        if not is_sym(v):
            return tuple(v.to_bytes(n, "big"))
        return eng.unpack(v, n)
    return h


REG[ZZ + "Hash"] = _nondet_bytes(32)
REG[ZZ + "Addr"] = _nondet_bytes(20)


@intr(ZZ + "Bytes")
def zz_bytes(eng, st, fr, args, ins):
    name, n = args
    if is_sym(n):
        raise Unsupported("zzverif.Bytes with symbolic length")
    if n == 0:
        # draw nothing, but keep native/symbolic counters aligned
        k = st.counters.get(name, 0)
        st.counters[name] = k + 1
        return eng.new_slice(st, "uint8", ())
    v = eng.fresh(st, name, 8 * n, kind="forcebv")
    bs = tuple(v.to_bytes(n, "big")) if not is_sym(v) else eng.unpack(v, n)
    return eng.new_slice(st, "uint8", bs)


@intr(ZZ + "WhenBlocked")
def zz_whenblocked(eng, st, fr, args, ins):
    st.world["when_blocked"] = tuple(st.world.get("when_blocked", ())) + (args[0],)
    return None


@intr(ZZ + "InlineGo")
def zz_inlinego(eng, st, fr, args, ins):
    st.world["inline_go"] = True
    return None


@intr(ZZ + "SameCommitment")
def zz_samecommitment(eng, st, fr, args, ins):
    a, b = args
    if all(type(x) is int for x in a) and all(type(x) is int for x in b):
        return tuple(a) == tuple(b)
    r = eng.heq(eng.pack(tuple(a)), eng.pack(tuple(b)))
    return r


@intr(ZZ + "Assume")
def zz_assume(eng, st, fr, args, ins):
    c = args[0]
    if is_sym(c):
        c = simp(c)
    if c is True:
        return None
    if c is False or not eng.feasible(st, c):
        raise PathEnd("assume_false")
    st.assume(c)
    return None


@intr(ZZ + "Assert")
def zz_assert(eng, st, fr, args, ins):
    name, c = args
    site = "%s:%s" % (fr.fn["name"].split(".")[-1], ins.get("ln"))
    rec = {"name": name, "site": site, "verdict": None}
    if is_sym(c):
        c = simp(c)
    if c is True:
        rec["verdict"] = "holds(concrete)"
        eng.asserts.append(rec)
        return None
    if c is False:
        r = eng.solver.check(st.pc)
        rec["verdict"] = "violated" if r == "sat" else ("unknown" if r == "unknown" else "unreachable")
        if r == "sat":
            rec["model"] = eng.model_values(st, eng.solver.last_model)
        eng.asserts.append(rec)
        raise PathEnd("assert_failed", name)
    import time, os
    t0 = time.time()
    if os.environ.get("VERIF_DUMP_ASSERTS"):
        open("/tmp/assert_%s.smt2" % name.replace(" ", "_")[:40], "w").write(eng.solver.to_smt2(st.pc, z3.Not(c)))
    r = eng.solver.check(st.pc, z3.Not(c))
    rec["solver_s"] = round(time.time() - t0, 3)
    if r == "unsat":
        rec["verdict"] = "holds"
        eng.asserts.append(rec)
        return None
    if r == "sat":
        rec["verdict"] = "violated"
        rec["model"] = eng.model_values(st, eng.solver.last_model)
        if eng.dump_smt2:
            rec["smt2"] = eng.solver.to_smt2(st.pc, z3.Not(c))
        eng.asserts.append(rec)
        if not eng.feasible(st, c):
            raise PathEnd("assert_failed", name)
        st.assume(c)
        return None
    rec["verdict"] = "unknown"
    eng.asserts.append(rec)
    st.assume(c)
    return None


@intr(ZZ + "Reach")
def zz_reach(eng, st, fr, args, ins):
    eng.reached[args[0]] = eng.reached.get(args[0], 0) + 1
    return None


@intr(ZZ + "Observe")
def zz_observe(eng, st, fr, args, ins):
    st.trace = st.trace + ((args[0], args[1]),)
    return None


# ------------------------------------------------------------------------------------ logging etc.
def _noop(eng, st, fr, args, ins):
    if ins is None:
        return None
    name = None
    sig = ins.get("sig")
    if sig:
        res = eng.ir.T(sig)["results"]
        if len(res) == 0:
            return None
        if len(res) == 1:
            return eng.zero(res[0])
        return tuple(eng.zero(r) for r in res)
    return None


PATTERNS.append(("github.com/agglayer/aggkit/log.", _noop))
PATTERNS.append(("(*github.com/agglayer/aggkit/log.Logger).", _noop))
PATTERNS.append(("(*sync.Mutex).", _noop))
PATTERNS.append(("(*sync.RWMutex).", _noop))
PATTERNS.append(("(*sync.WaitGroup).", _noop))
PATTERNS.append(("(*sync.Once).", None))
PATTERNS.pop()
PATTERNS.append(("go.opentelemetry.io/", _noop))
PATTERNS.append(("(go.opentelemetry.io/", _noop))
PATTERNS.append(("github.com/prometheus/", _noop))
PATTERNS.append(("github.com/agglayer/aggkit/prometheus.", _noop))
PATTERNS.append(("github.com/agglayer/aggkit/aggsender/metrics.", _noop))
PATTERNS.append(("github.com/agglayer/aggkit/aggoracle/metrics.", _noop))
PATTERNS.append(("fmt.Print", _noop))
PATTERNS.append(("fmt.Fprint", _noop))


# ------------------------------------------------------------------------------------ errors / fmt
def new_error(eng, st, msg):
    p = eng.alloc_val(st, "zz:errorString", (msg,))
    return Iface("*errors.errorString", p)


@intr("errors.New")
def errors_new(eng, st, fr, args, ins):
    return new_error(eng, st, args[0])


def err_message(eng, st, e):
    if e is None:
        return "<nil>"
    if e.tid == "*errors.errorString":
        return eng.load(st, e.val)[0]
    if e.tid == "*fmt.wrapError":
        return eng.load(st, e.val)[0]
    return SymStr("opaque", "error of %s" % e.tid)


@intr("(*errors.errorString).Error", "(*fmt.wrapError).Error")
def errstr_error(eng, st, fr, args, ins):
    return eng.load(st, args[0])[0]


@intr("(*fmt.wrapError).Unwrap")
def wraperr_unwrap(eng, st, fr, args, ins):
    return eng.load(st, args[0])[1]


def go_format(eng, st, fmtstr, args):
    """minimal Go fmt for concrete values; returns (string or SymStr, wrapped_error or None)"""
    out = []
    i = 0
    ai = 0
    wrapped = None
    sym = False
    n = len(fmtstr)
    while i < n:
        ch = fmtstr[i]
        if ch != "%":
            out.append(ch)
            i += 1
            continue
        j = i + 1
        while j < n and fmtstr[j] in "+-# 0123456789.":
            j += 1
        if j >= n:
            break
        verb = fmtstr[j]
        flags = fmtstr[i + 1:j]
        i = j + 1
        if verb == "%":
            out.append("%")
            continue
        if ai >= len(args):
            out.append("%!" + verb + "(MISSING)")
            continue
        a = args[ai]
        ai += 1
        if verb == "w" and isinstance(a, Iface) or (verb == "w" and a is None):
            wrapped = a
        s = fmt_value(eng, st, a, verb, flags)
        if not isinstance(s, str):
            sym = True
            out.append("<?>")
        else:
            out.append(s)
    if sym:
        return SymStr("opaque", "".join(out)), wrapped
    return "".join(out), wrapped


def fmt_value(eng, st, a, verb, flags=""):
    v = a.val if isinstance(a, Iface) else a
    tid = a.tid if isinstance(a, Iface) else None
    if a is None:
        return "<nil>"
    if isinstance(v, Opaque):
        return None
    if tid in ("*errors.errorString", "*fmt.wrapError"):
        m = eng.load(st, v)[0]
        return m if isinstance(m, str) else None
    if isinstance(v, bool):
        return "true" if v else "false"
    if isinstance(v, int):
        if verb in ("d", "v", "s"):
            return str(v)
        if verb == "x":
            return "%x" % v
        if verb == "X":
            return "%X" % v
        if verb == "c":
            return chr(v)
        if verb == "q":
            return repr(chr(v))
        return str(v)
    if isinstance(v, str):
        if verb == "q":
            return '"' + v + '"'
        if verb == "x":
            return v.encode().hex()
        return v
    if isinstance(v, float):
        return repr(v)
    return None  # symbolic or composite -> opaque


@intr("fmt.Sprintf")
def fmt_sprintf(eng, st, fr, args, ins):
    f, va = args
    s, _ = go_format(eng, st, f, eng.slice_elems(st, va))
    return s


@intr("fmt.Sprint", "fmt.Sprintln")
def fmt_sprint(eng, st, fr, args, ins):
    parts = [fmt_value(eng, st, a, "v") for a in eng.slice_elems(st, args[0])]
    if any(p is None for p in parts):
        return SymStr("opaque", "sprint")
    return " ".join(parts)


@intr("fmt.Errorf")
def fmt_errorf(eng, st, fr, args, ins):
    f, va = args
    s, wrapped = go_format(eng, st, f, eng.slice_elems(st, va))
    if "%w" in f:
        p = eng.alloc_val(st, "zz:wrapError", (s, wrapped))
        return Iface("*fmt.wrapError", p)
    return new_error(eng, st, s)


def unwrap_once(eng, st, e):
    """returns ('val', err) or ('call', fname) for types whose Unwrap must be executed"""
    e = eng.resolve_iface(st, e)
    if e is None:
        return ("val", None)
    if e.tid == "*fmt.wrapError":
        return ("val", eng.load(st, e.val)[1])
    if e.tid == "*errors.errorString":
        return ("val", None)
    m = eng.ir.methods.get(e.tid, {})
    if "Unwrap" in m:
        return ("call", m["Unwrap"])
    return ("val", None)


@intr("errors.Is")
def errors_is(eng, st, fr, args, ins):
    err, target = eng.resolve_iface(st, args[0]), eng.resolve_iface(st, args[1])
    res = False
    cur = err
    for _ in range(50):
        cur = eng.resolve_iface(st, cur)
        if cur is None:
            break
        if target is not None and cur.tid == target.tid:
            c = eng.eq(cur.val, target.val, cur.tid)
            if c is True:
                return True
            if c is not False:
                raise Unsupported("errors.Is with symbolic comparison")
        m = eng.ir.methods.get(cur.tid, {})
        if "Is" in m:
            raise Unsupported("errors.Is through custom Is method of %s" % cur.tid)
        k, v = unwrap_once(eng, st, cur)
        if k == "call":
            raise Unsupported("errors.Is through custom Unwrap of %s" % cur.tid)
        cur = v
    return target is None and err is None


@intr("errors.Unwrap")
def errors_unwrap(eng, st, fr, args, ins):
    k, v = unwrap_once(eng, st, args[0])
    if k == "call":
        raise Unsupported("errors.Unwrap custom")
    return v


@intr("errors.As")
def errors_as(eng, st, fr, args, ins):
    err, target = eng.resolve_iface(st, args[0]), args[1]
    # target: Iface(ptr-to-T type, Ptr)
    if target is None:
        raise GoPanic("errors.As: target nil")
    tptr = target.val
    ttid = eng.ir.canon(eng.ir.under(target.tid)["elem"])
    tu = eng.ir.under(ttid)
    cur = err
    for _ in range(50):
        cur = eng.resolve_iface(st, cur)
        if cur is None:
            return False
        if tu["k"] == "iface":
            ok = eng.implements(cur.tid, tu)
            if ok:
                eng.store(st, tptr, cur)
                return True
        elif cur.tid == ttid:
            eng.store(st, tptr, cur.val)
            return True
        k, v = unwrap_once(eng, st, cur)
        if k == "call":
            raise Unsupported("errors.As through custom Unwrap")
        cur = v
    return False


@intr("errors.Join")
def errors_join(eng, st, fr, args, ins):
    errs = [e for e in eng.slice_elems(st, args[0]) if e is not None]
    if not errs:
        return None
    if len(errs) == 1:
        p = eng.alloc_val(st, "zz:wrapError", (err_message(eng, st, errs[0]), errs[0]))
        return Iface("*fmt.wrapError", p)
    raise Unsupported("errors.Join of several errors")


# ------------------------------------------------------------------------------------ keccak
def keccak_bytes(eng, st, bs):
    """bs: tuple of byte values -> tuple of 32 byte values"""
    n = len(bs)
    if all(type(b) is int for b in bs):
        out = keccak256(bytes(bs))
        eng.keccak_images[(n, int.from_bytes(out, "big"))] = int.from_bytes(bytes(bs), "big")
        return tuple(out)
    K = eng.keccak_uf(n)
    term = K(eng.pack(bs))
    eng.keccak_apps.setdefault(n, {})[term.get_id()] = term
    return eng.unpack(term, 32)


@intr("golang.org/x/crypto/sha3.NewLegacyKeccak256")
def sha3_new(eng, st, fr, args, ins):
    p = eng.alloc_val(st, "zz:keccakState", ((),))
    return Iface("*zzverif.keccakState", p)


@intr("(*zzverif.keccakState).Write")
def kst_write(eng, st, fr, args, ins):
    p, data = args
    cur = eng.load(st, p)[0]
    add = eng.slice_elems(st, data)
    eng.store(st, p, (cur + tuple(add),))
    return (len(add), None)


@intr("(*zzverif.keccakState).Reset")
def kst_reset(eng, st, fr, args, ins):
    eng.store(st, args[0], ((),))
    return None


@intr("(*zzverif.keccakState).Sum")
def kst_sum(eng, st, fr, args, ins):
    p, b = args
    cur = eng.load(st, p)[0]
    h = keccak_bytes(eng, st, cur)
    pre = eng.slice_elems(st, b)
    return eng.new_slice(st, "uint8", tuple(pre) + h)


def _concat_slices(eng, st, va):
    out = ()
    for s in eng.slice_elems(st, va):
        out += tuple(eng.slice_elems(st, s))
    return out


@intr("github.com/ethereum/go-ethereum/crypto.Keccak256")
def crypto_keccak256(eng, st, fr, args, ins):
    return eng.new_slice(st, "uint8", keccak_bytes(eng, st, _concat_slices(eng, st, args[0])))


@intr("github.com/ethereum/go-ethereum/crypto.Keccak256Hash")
def crypto_keccak256hash(eng, st, fr, args, ins):
    return keccak_bytes(eng, st, _concat_slices(eng, st, args[0]))


@intr("github.com/iden3/go-iden3-crypto/keccak256.Hash")
def iden3_keccak(eng, st, fr, args, ins):
    return eng.new_slice(st, "uint8", keccak_bytes(eng, st, _concat_slices(eng, st, args[0])))


# ------------------------------------------------------------------------------------ go-ethereum/common
C = "github.com/ethereum/go-ethereum/common."


@intr("(" + C + "Hash).Bytes", "(" + C + "Address).Bytes")
def hash_bytes(eng, st, fr, args, ins):
    return eng.new_slice(st, "uint8", args[0])


def hexstr(bs):
    if all(type(b) is int for b in bs):
        return "0x" + bytes(bs).hex()
    return SymStr("hex", tuple(bs))


@intr("(" + C + "Hash).Hex", "(" + C + "Hash).String")
def hash_hex(eng, st, fr, args, ins):
    return hexstr(args[0])


@intr("(" + C + "Address).Hex", "(" + C + "Address).String")
def addr_hex(eng, st, fr, args, ins):
    bs = args[0]
    if all(type(b) is int for b in bs):
        # EIP-55 checksum
        h = bytes(bs).hex()
        d = keccak256(h.encode()).hex()
        return "0x" + "".join(c.upper() if (c.isalpha() and int(d[i], 16) >= 8) else c for i, c in enumerate(h))
    return SymStr("hex", tuple(bs))


def _right_align(bs, n):
    bs = tuple(bs)
    if len(bs) >= n:
        return bs[len(bs) - n:]
    return (0,) * (n - len(bs)) + bs


@intr(C + "BytesToHash")
def bytes_to_hash(eng, st, fr, args, ins):
    return _right_align(eng.slice_elems(st, args[0]), 32)


@intr(C + "BytesToAddress")
def bytes_to_addr(eng, st, fr, args, ins):
    return _right_align(eng.slice_elems(st, args[0]), 20)


def parse_hex(s):
    if isinstance(s, SymStr):
        if s.kind == "hex":
            return tuple(s.val)
        raise Unsupported("hex parse of symbolic string")
    if s.startswith("0x") or s.startswith("0X"):
        s = s[2:]
    if len(s) % 2:
        s = "0" + s
    try:
        return tuple(bytes.fromhex(s))
    except ValueError:
        return ()


@intr(C + "HexToHash")
def hex_to_hash(eng, st, fr, args, ins):
    return _right_align(parse_hex(args[0]), 32)


@intr(C + "HexToAddress")
def hex_to_addr(eng, st, fr, args, ins):
    return _right_align(parse_hex(args[0]), 20)


@intr(C + "Bytes2Hex")
def bytes2hex(eng, st, fr, args, ins):
    bs = eng.slice_elems(st, args[0])
    if all(type(b) is int for b in bs):
        return bytes(bs).hex()
    raise Unsupported("Bytes2Hex symbolic")


@intr(C + "Hex2Bytes", C + "FromHex")
def hex2bytes(eng, st, fr, args, ins):
    return eng.new_slice(st, "uint8", parse_hex(args[0]))


@intr(C + "CopyBytes")
def copy_bytes(eng, st, fr, args, ins):
    if args[0] is None or args[0].arr is None:
        return NIL_SLICE
    return eng.new_slice(st, "uint8", eng.slice_elems(st, args[0]))


@intr(C + "IsHexAddress")
def is_hex_address(eng, st, fr, args, ins):
    s = args[0]
    if isinstance(s, SymStr):
        raise Unsupported("IsHexAddress symbolic")
    if s.startswith("0x") or s.startswith("0X"):
        s = s[2:]
    return len(s) == 40 and all(c in "0123456789abcdefABCDEF" for c in s)


@intr("(" + C + "Hash).Cmp")
def hash_cmp(eng, st, fr, args, ins):
    a, b = args
    if all(type(x) is int for x in a + b):
        return (a > b) - (a < b)
    pa, pb = eng.pack(a), eng.pack(b)
    return z3.If(z3.ULT(pa, pb), z3.BitVecVal(-1, 64), z3.If(pa == pb, z3.BitVecVal(0, 64), z3.BitVecVal(1, 64)))


# ------------------------------------------------------------------------------------ math/big
BIGBITS = 256


class BigNat:
    """abs field of a modelled big.Int: v is a Python int or a z3 BitVec(BIGBITS)"""
    __slots__ = ("v",)

    def __init__(self, v):
        self.v = v

    def merge_with(self, eng, g, other, tid=None):
        ov = other.v if isinstance(other, BigNat) else 0
        return BigNat(z3.If(g, tobv(self.v, BIGBITS), tobv(ov, BIGBITS)))

    def __eq__(self, o):
        return isinstance(o, BigNat) and not is_sym(self.v) and not is_sym(o.v) and self.v == o.v

    def __hash__(self):
        return hash(("bignat", self.v if not is_sym(self.v) else self.v.get_id()))


def big_get(eng, st, p):
    if p is None:
        raise GoPanic("nil *big.Int dereference")
    if isinstance(p, Opaque):
        raise Unsupported("opaque *big.Int")
    v = eng.load(st, p)
    if v[0] is not False:
        neg = v[0]
        if neg is True or not eng.must(st, b_not(neg)):
            raise Unsupported("possibly negative big.Int in an operation modelled for naturals only")
    a = v[1]
    if isinstance(a, BigNat):
        return a.v
    if isinstance(a, Slice) or a is None:
        return 0
    raise Unsupported("big.Int abs %r" % (a,))


def big_get2(eng, st, p):
    """(neg, magnitude) of a possibly negative big.Int"""
    if p is None:
        raise GoPanic("nil *big.Int dereference")
    v = eng.load(st, p)
    a = v[1]
    mag = a.v if isinstance(a, BigNat) else 0
    return v[0], mag


def big_set2(eng, st, p, neg, mag):
    if p is None:
        raise GoPanic("nil *big.Int dereference")
    eng.store(st, p, (neg, BigNat(mag)))


def big_set(eng, st, p, v):
    if p is None:
        raise GoPanic("nil *big.Int dereference")
    if not is_sym(v):
        if v < 0:
            raise Unsupported("negative big.Int")
        if v >= 1 << BIGBITS:
            raise Unsupported("big.Int beyond %d bits" % BIGBITS)
    eng.store(st, p, (False, BigNat(v)))


def big_new(eng, st, v):
    p = eng.alloc(st, "math/big.Int")
    big_set(eng, st, p, v)
    return p


def bv_to_big(x, bits):
    if isinstance(x, z3.ArithRef):
        return x  # integer mode: big.Int values stay mathematical integers
    if is_sym(x):
        return z3.ZeroExt(BIGBITS - bits, x) if bits < BIGBITS else x
    return x


B = "(*math/big.Int)."


@intr("math/big.NewInt")
def big_newint(eng, st, fr, args, ins):
    x = args[0]
    p = eng.alloc(st, "math/big.Int")
    if is_sym(x):
        if isinstance(x, z3.ArithRef):
            big_set2(eng, st, p, simp(x < 0), z3.If(x < 0, -x, x))
        else:
            neg = simp(x < z3.BitVecVal(0, 64))
            mag = z3.ZeroExt(BIGBITS - 64, z3.If(x < z3.BitVecVal(0, 64), -x, x))
            big_set2(eng, st, p, neg, mag)
        return p
    big_set2(eng, st, p, x < 0, abs(x))
    return p


@intr(B + "SetUint64")
def big_setuint64(eng, st, fr, args, ins):
    big_set(eng, st, args[0], bv_to_big(args[1], 64))
    return args[0]


@intr(B + "SetInt64")
def big_setint64(eng, st, fr, args, ins):
    x = args[1]
    if is_sym(x):
        if not eng.must(st, x >= z3.BitVecVal(0, 64)):
            raise Unsupported("SetInt64 possibly negative")
        x = z3.ZeroExt(BIGBITS - 64, x)
    big_set(eng, st, args[0], x)
    return args[0]


@intr(B + "Set")
def big_set_(eng, st, fr, args, ins):
    big_set(eng, st, args[0], big_get(eng, st, args[1]))
    return args[0]


@intr(B + "SetBytes")
def big_setbytes(eng, st, fr, args, ins):
    bs = eng.slice_elems(st, args[1])
    if len(bs) * 8 > BIGBITS:
        lead = bs[:len(bs) - BIGBITS // 8]
        if not all(type(b) is int and b == 0 for b in lead):
            raise Unsupported("SetBytes of more than %d bits" % BIGBITS)
        bs = bs[len(bs) - BIGBITS // 8:]
    if len(bs) == 0:
        v = 0
    elif all(type(b) is int for b in bs):
        v = int.from_bytes(bytes(bs), "big")
    else:
        t = eng.pack(bs)
        v = z3.ZeroExt(BIGBITS - 8 * len(bs), t) if 8 * len(bs) < BIGBITS else t
    big_set(eng, st, args[0], v)
    return args[0]


def big_bytes_alts(eng, st, v, maxlen=BIGBITS // 8):
    """[(cond, bytes tuple)] splitting on the minimal byte length of v"""
    if not is_sym(v):
        n = (v.bit_length() + 7) // 8
        return [(None, tuple(v.to_bytes(n, "big")))]
    alts = []
    for n in range(0, maxlen + 1):
        if n == 0:
            c = v == z3.BitVecVal(0, BIGBITS)
        else:
            lo = z3.UGE(v, z3.BitVecVal(1 << (8 * (n - 1)), BIGBITS))
            c = z3.And(lo, z3.ULT(v, z3.BitVecVal(1 << (8 * n), BIGBITS))) if n < BIGBITS // 8 else lo
        if eng.feasible(st, c):
            bs = eng.unpack(z3.Extract(8 * n - 1, 0, v), n) if n else ()
            alts.append((c, bs))
    return alts


@intr(B + "Bytes")
def big_bytes(eng, st, fr, args, ins):
    v = big_get2(eng, st, args[0])[1]  # Bytes() is the absolute value
    alts = big_bytes_alts(eng, st, v)
    if len(alts) == 1:
        if alts[0][0] is not None:
            st.assume(alts[0][0])
        return eng.new_slice(st, "uint8", alts[0][1])

    def mk(bs):
        return lambda s: eng.new_slice(s, "uint8", bs)
    raise ret_fork(eng, ins, [(c, mk(bs)) for c, bs in alts])


@intr(B + "FillBytes")
def big_fillbytes(eng, st, fr, args, ins):
    p, buf = args
    v = big_get(eng, st, p)
    n = buf.len if buf is not None else 0
    if not is_sym(v):
        if v >= 1 << (8 * n):
            raise GoPanic("math/big: buffer too small to fit value")
        bs = tuple(v.to_bytes(n, "big"))
    else:
        if 8 * n < BIGBITS:
            fits = z3.ULT(v, z3.BitVecVal(1 << (8 * n), BIGBITS))
            if not eng.must(st, fits):
                def pan(s):
                    raise GoPanic("math/big: buffer too small to fit value")
                if eng.feasible(st, fits):
                    raise Fork([(z3.Not(fits), pan), (fits, lambda s: None)])
                raise GoPanic("math/big: buffer too small to fit value")
            bs = eng.unpack(z3.Extract(8 * n - 1, 0, v), n) if n else ()
        else:
            bs = (0,) * (n - BIGBITS // 8) + eng.unpack(v, BIGBITS // 8)
    if n:
        arr = eng.load(st, buf.arr)
        eng.store(st, buf.arr, arr[:buf.off] + tuple(bs) + arr[buf.off + n:])
    return buf


def _cmp_val(eng, a, b):
    if not is_sym(a) and not is_sym(b):
        return (a > b) - (a < b)
    if isinstance(a, z3.ArithRef) or isinstance(b, z3.ArithRef):
        from symex import toarith
        x, y = toarith(a), toarith(b)
        return z3.If(x < y, z3.IntVal(-1), z3.If(x == y, z3.IntVal(0), z3.IntVal(1)))
    ab, bb = tobv(a, BIGBITS), tobv(b, BIGBITS)
    return z3.If(z3.ULT(ab, bb), z3.BitVecVal(-1, 64), z3.If(ab == bb, z3.BitVecVal(0, 64), z3.BitVecVal(1, 64)))


@intr(B + "Cmp")
def big_cmp(eng, st, fr, args, ins):
    na, a = big_get2(eng, st, args[0])
    nb, b = big_get2(eng, st, args[1])
    if na is False and nb is False:
        return _cmp_val(eng, a, b)
    # sign-aware comparison (zero is never negative in math/big)
    pos = _cmp_val(eng, a, b)
    posb = pos if is_sym(pos) else z3.BitVecVal(pos, 64)
    rev = _cmp_val(eng, b, a)
    revb = rev if is_sym(rev) else z3.BitVecVal(rev, 64)
    if isinstance(posb, z3.ArithRef) or isinstance(revb, z3.ArithRef):
        raise Unsupported("signed big.Cmp in integer mode")
    na_, nb_ = tobool(na), tobool(nb)
    return z3.If(z3.And(na_, z3.Not(nb_)), z3.BitVecVal(-1, 64), z3.If(z3.And(z3.Not(na_), nb_), z3.BitVecVal(1, 64), z3.If(na_, revb, posb)))


@intr(B + "Sign")
def big_sign(eng, st, fr, args, ins):
    neg, v = big_get2(eng, st, args[0])
    if not is_sym(v) and not is_sym(neg):
        return 0 if v == 0 else (-1 if neg else 1)
    vb = tobv(v, BIGBITS) if not isinstance(v, z3.ArithRef) else v
    zero = (vb == 0) if isinstance(v, z3.ArithRef) else (vb == z3.BitVecVal(0, BIGBITS))
    return z3.If(zero, z3.BitVecVal(0, 64), z3.If(tobool(neg), z3.BitVecVal(-1, 64), z3.BitVecVal(1, 64)))


@intr(B + "Uint64")
def big_uint64(eng, st, fr, args, ins):
    v = big_get(eng, st, args[0])
    if not is_sym(v):
        return v & ((1 << 64) - 1)
    if isinstance(v, z3.ArithRef):
        return z3.simplify(v % (1 << 64))
    return concretize_bv(z3.Extract(63, 0, v), 64, False)


@intr(B + "Int64")
def big_int64(eng, st, fr, args, ins):
    v = big_get(eng, st, args[0])
    if not is_sym(v):
        return norm(v, 64, True)
    return concretize_bv(z3.Extract(63, 0, v), 64, True)


@intr(B + "IsUint64")
def big_isuint64(eng, st, fr, args, ins):
    v = big_get(eng, st, args[0])
    if not is_sym(v):
        return v < (1 << 64)
    return simp(z3.ULT(v, z3.BitVecVal(1 << 64, BIGBITS)))


@intr(B + "IsInt64")
def big_isint64(eng, st, fr, args, ins):
    v = big_get(eng, st, args[0])
    if not is_sym(v):
        return v < (1 << 63)
    return simp(z3.ULT(v, z3.BitVecVal(1 << 63, BIGBITS)))


@intr(B + "BitLen")
def big_bitlen(eng, st, fr, args, ins):
    v = big_get(eng, st, args[0])
    if not is_sym(v):
        return v.bit_length()
    raise Unsupported("BitLen symbolic")


@intr(B + "String")
def big_string(eng, st, fr, args, ins):
    if args[0] is None:
        return "<nil>"
    neg, mag = big_get2(eng, st, args[0])
    if neg is True and not is_sym(mag):
        return "-" + str(mag)
    if neg is not False:
        return SymStr("opaque", "decimal of a possibly negative big.Int")
    v = big_get(eng, st, args[0])
    if not is_sym(v):
        return str(v)
    return SymStr("dec", v)


@intr(B + "Text")
def big_text(eng, st, fr, args, ins):
    v = big_get(eng, st, args[0])
    base = args[1]
    if not is_sym(v):
        if base == 10:
            return str(v)
        if base == 16:
            return "%x" % v
    if base == 10:
        return SymStr("dec", v)
    raise Unsupported("big.Text symbolic base %s" % base)


@intr(B + "SetString")
def big_setstring(eng, st, fr, args, ins):
    p, s, base = args
    if isinstance(s, SymStr):
        if s.kind == "dec" and base == 10:
            big_set(eng, st, p, s.val)
            return (p, True)
        raise Unsupported("SetString symbolic")
    try:
        if base == 0:
            v = int(s, 0)
        else:
            v = int(s, base)
    except ValueError:
        return (None, False)
    if v < 0:
        raise Unsupported("negative big")
    big_set(eng, st, p, v)
    return (p, True)


def _big_arith(op):
    def h(eng, st, fr, args, ins):
        z, x, y = args
        a, b = big_get(eng, st, x), big_get(eng, st, y)
        if not is_sym(a) and not is_sym(b):
            r = {"add": a + b, "sub": a - b, "mul": a * b, "or": a | b, "and": a & b, "xor": a ^ b}[op]
            if op in ("div", "mod"):
                pass
            big_set(eng, st, z, r)
            return z
        ab, bb = tobv(a, BIGBITS), tobv(b, BIGBITS)
        if op == "add":
            ok = z3.BVAddNoOverflow(ab, bb, False)
            r = ab + bb
        elif op == "sub":
            ok = z3.UGE(ab, bb)
            r = ab - bb
        elif op == "mul":
            ok = z3.BVMulNoOverflow(ab, bb, False)
            r = ab * bb
        elif op == "or":
            ok, r = True, ab | bb
        elif op == "and":
            ok, r = True, ab & bb
        else:
            ok, r = True, ab ^ bb
        if ok is not True and not eng.must(st, ok):
            raise Unsupported("big.%s may leave [0,2^%d)" % (op, BIGBITS))
        big_set(eng, st, z, r)
        return z
    return h


for _n, _o in (("Add", "add"), ("Sub", "sub"), ("Mul", "mul"), ("Or", "or"), ("And", "and"), ("Xor", "xor")):
    REG[B + _n] = _big_arith(_o)


@intr(B + "Lsh")
def big_lsh(eng, st, fr, args, ins):
    z, x, n = args
    a = big_get(eng, st, x)
    if is_sym(n):
        raise Unsupported("Lsh symbolic count")
    if not is_sym(a):
        big_set(eng, st, z, a << n)
        return z
    if not eng.must(st, z3.ULT(a, z3.BitVecVal(1 << (BIGBITS - n), BIGBITS))):
        raise Unsupported("Lsh may overflow %d bits" % BIGBITS)
    big_set(eng, st, z, a << n)
    return z


@intr(B + "Rsh")
def big_rsh(eng, st, fr, args, ins):
    z, x, n = args
    a = big_get(eng, st, x)
    if is_sym(n):
        raise Unsupported("Rsh symbolic count")
    big_set(eng, st, z, (a >> n) if not is_sym(a) else z3.LShR(a, n))
    return z


@intr(C + "BigToHash")
def big_to_hash(eng, st, fr, args, ins):
    v = big_get2(eng, st, args[0])[1]  # BytesToHash(b.Bytes()): absolute value
    if not is_sym(v):
        return tuple((v & ((1 << 256) - 1)).to_bytes(32, "big"))
    return eng.unpack(v, 32)


@intr("(" + C + "Hash).Big")
def hash_big(eng, st, fr, args, ins):
    bs = args[0]
    if all(type(b) is int for b in bs):
        return big_new(eng, st, int.from_bytes(bytes(bs), "big"))
    return big_new(eng, st, eng.pack(bs))


# ------------------------------------------------------------------------------------ encoding/binary
def _put(order, nbytes):
    def h(eng, st, fr, args, ins):
        _, buf, v = args
        if buf is None or buf.len < nbytes:
            raise GoPanic("binary.Put: index out of range")
        if is_sym(v):
            bs = eng.unpack(v, nbytes)
        else:
            bs = tuple((v & ((1 << (8 * nbytes)) - 1)).to_bytes(nbytes, "big"))
        if order == "little":
            bs = tuple(reversed(bs))
        arr = eng.load(st, buf.arr)
        eng.store(st, buf.arr, arr[:buf.off] + bs + arr[buf.off + nbytes:])
        return None
    return h


def _get(order, nbytes):
    def h(eng, st, fr, args, ins):
        _, buf = args
        if buf is None or buf.len < nbytes:
            raise GoPanic("binary.Uint: index out of range")
        bs = eng.slice_elems(st, buf)[:nbytes]
        if order == "little":
            bs = tuple(reversed(bs))
        if all(type(b) is int for b in bs):
            return int.from_bytes(bytes(bs), "big")
        return eng.pack(bs)
    return h


for _o, _t in (("big", "bigEndian"), ("little", "littleEndian")):
    for _nb, _nm in ((2, "16"), (4, "32"), (8, "64")):
        REG["(encoding/binary.%s).PutUint%s" % (_t, _nm)] = _put(_o, _nb)
        REG["(encoding/binary.%s).Uint%s" % (_t, _nm)] = _get(_o, _nb)


# ------------------------------------------------------------------------------------ misc std
@intr("bytes.Equal")
def bytes_equal(eng, st, fr, args, ins):
    a, b = eng.slice_elems(st, args[0]), eng.slice_elems(st, args[1])
    return eng.bytes_eq(a, b) if len(a) == len(b) else False


@intr("strings.ReplaceAll")
def strings_replaceall(eng, st, fr, args, ins):
    s, a, b = args
    if not all(isinstance(x, str) for x in args):
        raise Unsupported("strings.ReplaceAll symbolic")
    return s.replace(a, b)


@intr("strings.Split")
def strings_split(eng, st, fr, args, ins):
    s, sep = args
    if not isinstance(s, str):
        raise Unsupported("strings.Split symbolic")
    return eng.new_slice(st, "string", tuple(s.split(sep)))


@intr("strings.Join")
def strings_join(eng, st, fr, args, ins):
    parts = eng.slice_elems(st, args[0])
    if not all(isinstance(p, str) for p in parts):
        return SymStr("opaque", "join")
    return args[1].join(parts)


def _str1(f):
    def h(eng, st, fr, args, ins):
        if not all(isinstance(x, (str, int)) for x in args):
            raise Unsupported("string function on symbolic string")
        return f(*args)
    return h


REG["strings.HasPrefix"] = _str1(lambda s, p: s.startswith(p))
REG["strings.HasSuffix"] = _str1(lambda s, p: s.endswith(p))
REG["strings.TrimPrefix"] = _str1(lambda s, p: s[len(p):] if s.startswith(p) else s)
REG["strings.TrimSuffix"] = _str1(lambda s, p: s[:-len(p)] if p and s.endswith(p) else s)
REG["strings.ToLower"] = _str1(lambda s: s.lower())
REG["strings.ToUpper"] = _str1(lambda s: s.upper())
REG["strings.TrimSpace"] = _str1(lambda s: s.strip())
REG["strings.Contains"] = _str1(lambda s, p: p in s)
REG["strings.Index"] = _str1(lambda s, p: s.find(p))
REG["strings.Repeat"] = _str1(lambda s, n: s * n)
REG["strings.Trim"] = _str1(lambda s, c: s.strip(c))
REG["strings.EqualFold"] = _str1(lambda a, b: a.lower() == b.lower())
REG["strconv.Itoa"] = _str1(lambda n: str(n))


@intr("strconv.FormatUint", "strconv.FormatInt")
def strconv_format(eng, st, fr, args, ins):
    v, base = args
    if is_sym(v):
        if base == 10:
            return SymStr("dec", z3.ZeroExt(BIGBITS - 64, v))
        raise Unsupported("FormatUint symbolic")
    if base == 10:
        return str(v)
    if base == 16:
        return "%x" % v
    raise Unsupported("FormatUint base")


@intr("os.Getpid")
def os_getpid(eng, st, fr, args, ins):
    return 4242


def model_values(eng, st, model):
    out = {}
    for name, e, kind in st.syms:
        v = model.eval(e, model_completion=True)
        if kind == "bool":
            out[name] = bool(z3.is_true(v))
        else:
            out[name] = "0x%x" % v.as_long()
    return out


@intr(B + "SetBit")
def big_setbit(eng, st, fr, args, ins):
    z, x, i, b = args
    a = big_get(eng, st, x)
    if is_sym(i) or is_sym(b):
        raise Unsupported("SetBit with symbolic position")
    if i >= BIGBITS:
        raise Unsupported("SetBit beyond %d bits" % BIGBITS)
    if not is_sym(a):
        r = (a | (1 << i)) if b else (a & ~(1 << i))
    else:
        m = z3.BitVecVal(1 << i, BIGBITS)
        r = (a | m) if b else (a & ~m)
    big_set(eng, st, z, r)
    return z


@intr(B + "Bit")
def big_bit(eng, st, fr, args, ins):
    a = big_get(eng, st, args[0])
    i = args[1]
    if is_sym(i):
        raise Unsupported("Bit with symbolic position")
    if not is_sym(a):
        return (a >> i) & 1
    return z3.ZeroExt(63, z3.Extract(i, i, a))


@intr("strconv.ParseUint")
def strconv_parseuint(eng, st, fr, args, ins):
    s, base, bits = args
    if isinstance(s, SymStr) or is_sym(base) or is_sym(bits):
        raise Unsupported("strconv.ParseUint of a symbolic string")
    try:
        if base != 10 or not s or not s.isdigit() or not s.isascii():
            raise ValueError
        v = int(s, 10)
        if v >= 1 << (bits or 64):
            raise ValueError
        return (v, None)
    except ValueError:
        return (0, new_error(eng, st, 'strconv.ParseUint: parsing "%s": invalid syntax' % s))
