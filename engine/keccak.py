"""Pure-Python legacy Keccak-256 (Ethereum), used for concrete evaluation inside the engine."""
RC = [0x0000000000000001, 0x0000000000008082, 0x800000000000808A, 0x8000000080008000, 0x000000000000808B,
      0x0000000080000001, 0x8000000080008081, 0x8000000000008009, 0x000000000000008A, 0x0000000000000088,
      0x0000000080008009, 0x000000008000000A, 0x000000008000808B, 0x800000000000008B, 0x8000000000008089,
      0x8000000000008003, 0x8000000000008002, 0x8000000000000080, 0x000000000000800A, 0x800000008000000A,
      0x8000000080008081, 0x8000000000008080, 0x0000000080000001, 0x8000000080008008]
ROT = [[0, 36, 3, 41, 18], [1, 44, 10, 45, 2], [62, 6, 43, 15, 61], [28, 55, 25, 21, 56], [27, 20, 39, 8, 14]]
M = (1 << 64) - 1


def _rol(x, n):
    n %= 64
    return ((x << n) | (x >> (64 - n))) & M if n else x


def _f(A):
    for rnd in range(24):
        C = [A[x][0] ^ A[x][1] ^ A[x][2] ^ A[x][3] ^ A[x][4] for x in range(5)]
        D = [C[(x - 1) % 5] ^ _rol(C[(x + 1) % 5], 1) for x in range(5)]
        A = [[A[x][y] ^ D[x] for y in range(5)] for x in range(5)]
        B = [[0] * 5 for _ in range(5)]
        for x in range(5):
            for y in range(5):
                B[y][(2 * x + 3 * y) % 5] = _rol(A[x][y], ROT[x][y])
        A = [[B[x][y] ^ ((~B[(x + 1) % 5][y]) & B[(x + 2) % 5][y]) for y in range(5)] for x in range(5)]
        A[0][0] ^= RC[rnd]
    return A


_memo = {}


def keccak256(data: bytes) -> bytes:
    r = _memo.get(data)
    if r is None:
        r = _keccak256(data)
        if len(_memo) < 200000:
            _memo[bytes(data)] = r
    return r


def _keccak256(data: bytes) -> bytes:
    rate = 136
    p = bytearray(data)
    p.append(0x01)
    while len(p) % rate:
        p.append(0)
    p[-1] |= 0x80
    A = [[0] * 5 for _ in range(5)]
    for off in range(0, len(p), rate):
        blk = p[off:off + rate]
        for i in range(rate // 8):
            A[i % 5][i // 5] ^= int.from_bytes(blk[8 * i:8 * i + 8], "little")
        A = _f(A)
    out = b""
    for i in range(4):
        out += A[i % 5][i // 5].to_bytes(8, "little")
    return out


if __name__ == "__main__":
    assert keccak256(b"").hex() == "c5d2460186f7233c927e7db2dcc703c0e500b653ca82273b7bfad8045d85a470"
    print("ok")
