"""Symbolic executor for the go/ssa JSON IR (see DESIGN.md section 3).

Values (immutable):
  ints    : Python int (canonical for the Go type) or z3 BitVecRef
  bools   : Python bool or z3 BoolRef
  strings : Python str or SymStr
  struct / array : tuple
  pointer : Ptr(obj, path) or None
  slice   : Slice(arr(Ptr)|None, off, len, cap)   (concrete off/len/cap)
  map     : MapRef(obj) or None ; chan: ChanRef(obj) or None
  iface   : Iface(tid, val) or None
  func    : Closure(fn, binds) or None
"""
import itertools
import sys
import time

import z3

from ir import IR

sys.setrecursionlimit(20000)
import os
TRACE_CALLS = bool(os.environ.get("VERIF_TRACE_CALLS"))
DEBUG_SLOW = os.environ.get("VERIF_DEBUG_SLOW")
DEBUG_FORKS = os.environ.get("VERIF_DEBUG_FORKS")


# --------------------------------------------------------------------------------------- values
class Ptr:
    __slots__ = ("obj", "path")

    def __init__(self, obj, path=()):
        self.obj = obj
        self.path = path

    def __eq__(self, o):
        return isinstance(o, Ptr) and self.obj == o.obj and self.path == o.path

    def __hash__(self):
        return hash((self.obj, self.path))

    def __repr__(self):
        return "Ptr(%s,%s)" % (self.obj, self.path)


class Slice:
    __slots__ = ("arr", "off", "len", "cap")

    def __init__(self, arr, off, ln, cap):
        self.arr = arr
        self.off = off
        self.len = ln
        self.cap = cap

    def __eq__(self, o):
        return isinstance(o, Slice) and self.arr == o.arr and self.off == o.off and self.len == o.len and self.cap == o.cap

    def __hash__(self):
        return hash((self.arr, self.off, self.len, self.cap))

    def __repr__(self):
        return "Slice(%s,%d,%d,%d)" % (self.arr, self.off, self.len, self.cap)


NIL_SLICE = Slice(None, 0, 0, 0)


class MapRef:
    __slots__ = ("obj",)

    def __init__(self, obj):
        self.obj = obj

    def __eq__(self, o):
        return isinstance(o, MapRef) and self.obj == o.obj

    def __hash__(self):
        return hash(("map", self.obj))


class ChanRef(MapRef):
    pass


class Iface:
    __slots__ = ("tid", "val")

    def __init__(self, tid, val):
        self.tid = tid
        self.val = val

    def __repr__(self):
        return "Iface(%s,%r)" % (self.tid, self.val)


class CondIface:
    """interface value given by guarded alternatives [(cond, Iface)], first match wins, nil when none holds
    (produced by merging nil / non-nil interface values and by the abstract store)"""
    __slots__ = ("alts",)

    def __init__(self, cond, iface=None):
        if iface is None:
            self.alts = tuple(cond)
        else:
            self.alts = ((cond, iface),)

    @property
    def cond(self):
        """condition under which the value is non-nil"""
        r = False
        for c, _ in self.alts:
            r = b_or(r, c)
        return r

    def __repr__(self):
        return "CondIface(%r)" % ([i for _, i in self.alts],)


def _iface_alts(v):
    if v is None:
        return ()
    if isinstance(v, Iface):
        return ((True, v),)
    return v.alts


class Closure:
    __slots__ = ("fn", "binds")

    def __init__(self, fn, binds=()):
        self.fn = fn
        self.binds = binds

    def __eq__(self, o):
        return isinstance(o, Closure) and self.fn == o.fn and self.binds == o.binds

    def __hash__(self):
        return hash((self.fn, self.binds))

    def __repr__(self):
        return "Closure(%s)" % self.fn


class SymStr:
    """A string that is not a concrete Python str. kind: 'hex' (0x + hex of bytes tuple), 'dec' (decimal of int
    value), 'opaque' (unknown content), 'cat' (concatenation)."""
    __slots__ = ("kind", "val")

    def __init__(self, kind, val):
        self.kind = kind
        self.val = val

    def __repr__(self):
        return "SymStr(%s)" % self.kind


class Opaque:
    """value produced by an unmodelled call during lenient (init) execution"""
    __slots__ = ("why",)

    def __init__(self, why):
        self.why = why

    def __repr__(self):
        return "Opaque(%s)" % self.why


def is_sym(v):
    return isinstance(v, z3.ExprRef)


# ------------------------------------------------------------------------------- terminal outcomes
class PathEnd(Exception):
    def __init__(self, kind, info=None):
        self.kind = kind
        self.info = info


class Unsupported(Exception):
    pass


class GoPanic(Exception):
    def __init__(self, msg):
        self.msg = msg


class MergeFail(Exception):
    pass


class Fork(Exception):
    """raised by instruction handlers to request a fork: alts = [(cond or None, thunk(state))]"""

    def __init__(self, alts):
        self.alts = alts


# ------------------------------------------------------------------------------------------ state
class Frame:
    __slots__ = ("fn", "b", "i", "prev", "locals", "defers", "ret", "discard", "visits", "rundefers_pending", "results", "serial")

    def __init__(self, fn):
        self.fn = fn
        self.serial = next(_obj_counter)
        self.b = 0
        self.i = 0
        self.prev = -1
        self.locals = {}
        self.defers = []
        self.ret = None
        self.discard = False
        self.visits = {}

    def copy(self):
        f = Frame(self.fn)
        f.serial = self.serial
        f.b, f.i, f.prev = self.b, self.i, self.prev
        f.locals = dict(self.locals)
        f.defers = list(self.defers)
        f.ret = self.ret
        f.discard = self.discard
        f.visits = dict(self.visits)
        return f


class State:
    def __init__(self):
        self.frames = []
        self.heap = {}
        self.pc = ()  # tuple of z3 BoolRef
        self.world = {}  # name -> immutable/persistent model data
        self.counters = {}
        self.syms = ()  # ((name, expr, kind), ...)
        self.trace = ()
        self.lenient = False
        self.goroutines = ()

    def copy(self):
        s = State()
        s.frames = [f.copy() for f in self.frames]
        s.heap = dict(self.heap)
        s.pc = self.pc
        s.world = dict(self.world)
        s.counters = dict(self.counters)
        s.syms = self.syms
        s.trace = self.trace
        s.lenient = self.lenient
        s.goroutines = self.goroutines
        s.unchecked = getattr(self, "unchecked", False)
        return s

    def assume(self, c):
        if c is True:
            return
        self.pc = self.pc + (c,)


_obj_counter = itertools.count(1)


def new_obj_id():
    return next(_obj_counter)


def st_oid(st):
    """object id = allocation site + per-path count at that site: two arms of a branch that allocate at the same site get
    the same id, so that pointers agree when the arms are merged"""
    if st.frames:
        fr = st.frames[-1]
        site = "%s:%d:%d" % (fr.fn["name"], fr.b, fr.i)
    else:
        site = "top"
    key = "@" + site
    k = st.counters.get(key, 0)
    st.counters[key] = k + 1
    return "%s#%d" % (site, k)


# ----------------------------------------------------------------------------------------- solver
class SolverCtx:
    def __init__(self, timeout_ms=60000):
        self.s = z3.Solver()
        self.s.set("timeout", timeout_ms)
        self.stack = []
        self.facts_provider = None
        self.nq = 0
        self.t = 0.0
        self.unknowns = 0

    def set_facts(self, facts):
        """global axioms (e.g. K_n(c) = keccak(c) for concrete evaluations): asserted below every path condition"""
        if len(facts) == self.nfacts:
            return
        for _ in range(len(self.stack)):
            self.s.pop()
        del self.stack[:]
        for f in facts[self.nfacts:]:
            self.s.add(f)
        self.nfacts = len(facts)

    nfacts = 0

    def _sync(self, pc):
        k = 0
        n = min(len(pc), len(self.stack))
        while k < n and self.stack[k] is pc[k]:
            k += 1
        for _ in range(len(self.stack) - k):
            self.s.pop()
        del self.stack[k:]
        for c in pc[k:]:
            self.s.push()
            self.s.add(c)
            self.stack.append(c)

    def check(self, pc, extra=None):
        """returns 'sat' | 'unsat' | 'unknown'"""
        t0 = time.time()
        if self.facts_provider is not None:
            self.set_facts(self.facts_provider())
        self._sync(pc)
        self.nq += 1
        if extra is not None:
            self.s.push()
            self.s.add(extra)
        r = self.s.check()
        if DEBUG_SLOW and time.time() - t0 > 2:
            import traceback
            print("SLOW QUERY %.1fs result=%s pc=%d" % (time.time() - t0, r, len(pc)), "".join(traceback.format_stack(limit=6)[-5:-1]).replace("\n", " | ")[:600])
            if DEBUG_SLOW == "dump":
                open("/tmp/slow_%d.smt2" % self.nq, "w").write(self.to_smt2(pc, extra))
        self.last_model = self.s.model() if r == z3.sat else None
        if extra is not None:
            self.s.pop()
        self.t += time.time() - t0
        if r == z3.sat:
            return "sat"
        if r == z3.unsat:
            return "unsat"
        self.unknowns += 1
        return "unknown"

    def to_smt2(self, pc, extra=None):
        s = z3.Solver()
        if self.facts_provider is not None:
            for f in self.facts_provider():
                s.add(f)
        for c in pc:
            s.add(c)
        if extra is not None:
            s.add(extra)
        return s.to_smt2()


# ------------------------------------------------------------------------------------- int helpers
def norm(v, bits, signed):
    v &= (1 << bits) - 1
    if signed and v >> (bits - 1):
        v -= 1 << bits
    return v


def tobv(v, bits):
    if is_sym(v):
        return v
    return z3.BitVecVal(v, bits)


def tobool(v):
    if is_sym(v):
        return v
    return z3.BoolVal(bool(v))


def simp(e):
    e = z3.simplify(e)
    if z3.is_true(e):
        return True
    if z3.is_false(e):
        return False
    if z3.is_bv_value(e):
        return e  # caller normalises
    return e


def concretize_bv(e, bits, signed):
    if is_sym(e):
        e = z3.simplify(e)
        if z3.is_bv_value(e):
            return norm(e.as_long(), bits, signed)
    return e


def is_arith(v):
    return isinstance(v, z3.ArithRef)


def toarith(v, signed=False):
    if isinstance(v, z3.ArithRef):
        return v
    if isinstance(v, bool):
        raise Unsupported("bool in arithmetic")
    if isinstance(v, int):
        return z3.IntVal(v)
    if isinstance(v, float):
        n, d = v.as_integer_ratio()
        return z3.RealVal(n) / z3.RealVal(d) if d != 1 else z3.RealVal(n)
    if isinstance(v, z3.BitVecRef):
        return z3.BV2Int(v, signed)
    raise Unsupported("toarith %r" % type(v))


def wrap_int(e, bits, signed):
    m = 1 << bits
    if signed:
        h = 1 << (bits - 1)
        return ((e + h) % m) - h
    return e % m


def conc_arith(e, bits=None, signed=False):
    if isinstance(e, z3.ArithRef):
        e = z3.simplify(e)
        if z3.is_int_value(e):
            return e.as_long()
    return e


def b_and(a, b):
    if a is False or b is False:
        return False
    if a is True:
        return b
    if b is True:
        return a
    return z3.And(a, b)


def b_or(a, b):
    if a is True or b is True:
        return True
    if a is False:
        return b
    if b is False:
        return a
    return z3.Or(a, b)


def b_not(a):
    if a is True:
        return False
    if a is False:
        return True
    r = z3.simplify(z3.Not(a))
    return r


def b_ite(c, a, b):
    if c is True:
        return a
    if c is False:
        return b
    return z3.If(c, a, b)


# ------------------------------------------------------------------------------------------ engine
class Engine:
    def __init__(self, ir: IR, unwind=64, solver_timeout_ms=60000):
        self.ir = ir
        self.solver = SolverCtx(solver_timeout_ms)
        self.solver.facts_provider = self.keccak_facts
        self._facts = []
        self._facts_seen = set()
        self.unwind = unwind
        self.intrinsics = {}
        self.ext_methods = {}  # tid -> set of method names (external dynamic types created by intrinsics)
        self.results = []  # (kind, info, state)
        self.stats = {"instrs": 0, "forks": 0, "merges": 0, "merge_fail": 0, "paths": 0, "calls": 0}
        self.fn_stats = {}
        self.functions_entered = set()
        self.asserts = []  # dicts
        self.reached = {}
        self.merging = True
        self.max_paths = 200000
        self.deadline = None
        self.on_assert_violation = None
        self.ops = {
            "Alloc": self.op_alloc, "BinOp": self.op_binop, "Call": self.op_call, "ChangeInterface": self.op_move,
            "ChangeType": self.op_move, "Convert": self.op_convert, "Defer": self.op_defer, "Extract": self.op_extract,
            "Field": self.op_field, "FieldAddr": self.op_fieldaddr, "Go": self.op_go, "If": None, "Index": self.op_index,
            "IndexAddr": self.op_indexaddr, "Jump": None, "Lookup": self.op_lookup, "MakeChan": self.op_makechan,
            "MakeClosure": self.op_makeclosure, "MakeInterface": self.op_makeinterface, "MakeMap": self.op_makemap,
            "MakeSlice": self.op_makeslice, "MapUpdate": self.op_mapupdate, "Next": self.op_next, "Panic": self.op_panic,
            "Range": self.op_range, "Return": None, "RunDefers": None, "Select": self.op_select, "Send": self.op_send,
            "Slice": self.op_slice, "SliceToArrayPointer": self.op_slice2arr, "Store": self.op_store,
            "TypeAssert": self.op_typeassert, "UnOp": self.op_unop,
        }

    # ------------------------------------------------------------------ zero values / memory
    def zero(self, tid):
        z = self.ir._zero.get(tid)
        if z is not None or tid in self.ir._zero:
            return z
        u = self.ir.under(tid)
        k = u["k"]
        if k == "basic":
            cls = u["cls"]
            z = {"int": 0, "bool": False, "string": "", "float": 0.0}.get(cls, None)
        elif k == "struct":
            z = tuple(self.zero(f["t"]) for f in u["fields"])
        elif k == "array":
            e = self.zero(u["elem"])
            z = (e,) * u["len"]
        elif k == "slice":
            z = NIL_SLICE
        else:
            z = None
        self.ir._zero[tid] = z
        return z

    def alloc(self, st, tid, val=None):
        oid = st_oid(st)
        st.heap[oid] = self.zero(tid) if val is None else val
        self.objtype[oid] = tid
        return Ptr(oid, ())

    def alloc_val(self, st, tid, val):
        oid = st_oid(st)
        st.heap[oid] = val
        self.objtype[oid] = tid
        return Ptr(oid, ())

    objtype = {}

    def load(self, st, p):
        if p is None:
            raise GoPanic("nil pointer dereference")
        if isinstance(p, Opaque):
            raise Unsupported("load through opaque pointer: %s" % p.why)
        v = st.heap[p.obj]
        for i in p.path:
            v = v[i]
        return v

    def store(self, st, p, val):
        if p is None:
            raise GoPanic("nil pointer dereference (store)")
        if isinstance(p, Opaque):
            raise Unsupported("store through opaque pointer")
        if not p.path:
            st.heap[p.obj] = val
            return
        st.heap[p.obj] = self._upd(st.heap[p.obj], p.path, 0, val)

    def _upd(self, v, path, k, val):
        i = path[k]
        if k == len(path) - 1:
            return v[:i] + (val,) + v[i + 1:]
        return v[:i] + (self._upd(v[i], path, k + 1, val),) + v[i + 1:]

    # type of the location a pointer designates
    def ptr_elem_type(self, p):
        tid = self.objtype[p.obj]
        for i in p.path:
            u = self.ir.under(tid)
            if u["k"] == "struct":
                tid = u["fields"][i]["t"]
            elif u["k"] == "array":
                tid = u["elem"]
            else:
                raise Unsupported("ptr path through %s" % u["k"])
        return tid

    # ------------------------------------------------------------------ operands
    def val(self, st, fr, o):
        if o is None:
            return None
        r = o.get("r")
        if r is not None:
            try:
                return fr.locals[r]
            except KeyError:
                raise Unsupported("undefined register %s in %s" % (r, fr.fn["name"]))
        if "c" in o:
            return self.const(o)
        if "g" in o:
            return self.global_ptr(st, o["g"])
        if "f" in o:
            return Closure(o["f"], ())
        if "b" in o:
            return Closure("builtin:" + o["b"], ())
        raise Unsupported("operand %r" % o)

    def const(self, o):
        ck = o["ck"]
        c = o["c"]
        if ck == "nil":
            return self.zero(o["t"])
        if ck == "int":
            info = self.ir.intinfo(o["t"])
            if info is None:
                u = self.ir.under(o["t"])
                if u["k"] == "basic" and u["cls"] == "float":
                    return float(int(c))
                raise Unsupported("int const of type %s" % o["t"])
            return norm(int(c), info[0], info[1])
        if ck == "bool":
            return bool(c)
        if ck == "string":
            return c
        if ck == "float":
            u = self.ir.under(o["t"])
            if u["k"] == "basic" and u["cls"] == "int":
                return int(float(c))
            return float(c)
        raise Unsupported("const kind %s" % ck)

    # external package-level variables whose zero value is an adequate stand-in (empty structs, handles only passed on to models)
    zero_ok_globals = {
        "encoding/binary.BigEndian", "encoding/binary.LittleEndian",
        "github.com/0xPolygon/cdk-contracts-tooling/contracts/fep/etrog/polygonzkevmbridge.PolygonzkevmbridgeMetaData",
        "github.com/0xPolygon/cdk-contracts-tooling/contracts/pp/l2-sovereign-chain/globalexitrootmanagerl2sovereignchain.Globalexitrootmanagerl2sovereignchainMetaData",
        "github.com/0xPolygon/cdk-contracts-tooling/contracts/pp/l2-sovereign-chain/polygonzkevmbridgev2.Polygonzkevmbridgev2MetaData",
        "github.com/prometheus/client_golang/prometheus.DefaultRegisterer", "github.com/russross/meddler.Default", "github.com/russross/meddler.SQLite",
        "github.com/swaggo/files.Handler", "google.golang.org/grpc/backoff.DefaultConfig",
    }

    def global_ptr(self, st, name):
        key = "g:" + name
        if key not in st.heap or "init_failed" in st.world:
            g = self.ir.globals[name]
            if not st.lenient:
                for p, why in st.world.get("init_failed", ()):
                    if g.get("pkg") == p:
                        raise Unsupported("global %s of package whose init could not be executed: %s" % (name, why))
        if key not in st.heap:
            ext = self.external_globals.get(name)
            if ext is not None:
                st.heap[key] = ext(self, st)
            else:
                emb = self.ir.embeds.get(name)
                if emb is None and not st.lenient and g.get("pkg") not in self.ir.packages and name not in self.zero_ok_globals:
                    # a package-level variable of a package whose initialiser is not executed: its value is unknown
                    raise Unsupported("external global %s has no model" % name)
                st.heap[key] = emb if emb is not None else self.zero(g["t"])
            self.objtype[key] = g["t"]
        return Ptr(key, ())

    # ------------------------------------------------------------------ solver-facing helpers
    def feasible(self, st, c):
        """c: Python bool or z3 Bool. returns True/False (unknown => True, counted)"""
        if c is True:
            return True
        if c is False:
            return False
        cid = c.get_id()
        ncid = self._neg.get(cid)
        if ncid is None:
            # syntactic complement: Not(c), or x when c is Not(x)
            if z3.is_not(c):
                ncid = c.arg(0).get_id()
            else:
                nc_ = z3.Not(c)
                ncid = nc_.get_id()
                self._keep.append(nc_)
        for p in st.pc:
            pid = p.get_id()
            if pid == cid:
                return True
            if pid == ncid or self._neg.get(pid) == cid:
                return False
        r = self.solver.check(st.pc, c)
        if r == "unknown":
            self.stats["unknown_feas"] = self.stats.get("unknown_feas", 0) + 1
        return r != "unsat"

    def quick_decide(self, st, c):
        """syntactic decision of c against the path condition (no solver): True / False / None"""
        cid = c.get_id()
        ncid = self._neg.get(cid)
        if ncid is None:
            if z3.is_not(c):
                ncid = c.arg(0).get_id()
            else:
                nc_ = z3.Not(c)
                ncid = nc_.get_id()
                self._keep.append(nc_)
        for p in st.pc:
            pid = p.get_id()
            if pid == cid:
                return True
            if pid == ncid or self._neg.get(pid) == cid:
                return False
        return None

    def must(self, st, c):
        if c is True:
            return True
        if c is False:
            return False
        cid = c.get_id()
        ncid = self._neg.get(cid)
        if ncid is None:
            # syntactic complement: Not(c), or x when c is Not(x)
            if z3.is_not(c):
                ncid = c.arg(0).get_id()
            else:
                nc_ = z3.Not(c)
                ncid = nc_.get_id()
                self._keep.append(nc_)
        for p in st.pc:
            pid = p.get_id()
            if pid == cid:
                return True
            if pid == ncid or self._neg.get(pid) == cid:
                return False
        return self.solver.check(st.pc, z3.Not(c)) == "unsat"

    def fresh(self, st, name, sort_bits=None, kind="bv"):
        k = st.counters.get(name, 0)
        st.counters[name] = k + 1
        full = "%s#%d" % (name, k)
        if self.vector is not None:
            v = self.vector.get(full, 0)
            if isinstance(v, str):
                v = int(v, 16) if v.startswith("0x") else int(v)
            return int(v) & ((1 << sort_bits) - 1)
        if kind == "bool":
            e = z3.Bool(full)
        elif self.arith == "int" and kind != "forcebv":
            e = z3.Int(full)
            st.assume(z3.And(e >= 0, e < (1 << sort_bits)))
        else:
            e = z3.BitVec(full, sort_bits)
        st.syms = st.syms + ((full, e, kind if kind == "bool" else sort_bits),)
        return e

    # ------------------------------------------------------------------ running
    def start(self, st, fname, args=()):
        fn = self.ir.funcs[fname]
        fr = Frame(fn)
        for i, a in enumerate(args):
            fr.locals["p:%d" % i] = a
        st.frames.append(fr)
        self.functions_entered.add(fname)

    def run_function(self, fname, args=(), st=None):
        """explore all paths of fname from state st; results accumulate in self.results"""
        if st is None:
            st = self.initial_state()
        base = len(st.frames)
        self.start(st, fname, args)
        self.explore(st, None, base)

    def finish(self, st, kind, info=None):
        if getattr(st, "unchecked", False) and kind not in ("assume_false",):
            if self.solver.check(st.pc) == "unsat":
                self.stats["infeasible_dropped"] = self.stats.get("infeasible_dropped", 0) + 1
                return
        self.stats["paths"] += 1
        self.results.append((kind, info, st))
        if self.stats["paths"] > self.max_paths:
            raise RuntimeError("path limit exceeded")

    def explore(self, st, stop, base=0):
        """run st (and all its forks) until `stop`=(depth, block) is reached or the path ends.
        returns the list of states standing at stop."""
        work = [st]
        out = []
        while work:
            s = work.pop()
            if self.deadline and time.time() > self.deadline:
                self.finish(s, "timeout")
                continue
            try:
                r = self.run_linear(s, stop, base)
            except PathEnd as e:
                self.finish(s, e.kind, e.info)
                continue
            except GoPanic as e:
                self.finish(s, "panic", e.msg)
                continue
            except Unsupported as e:
                if s.frames:
                    fr = s.frames[-1]
                    where = "%s b%d i%d" % (fr.fn["name"], fr.b, fr.i)
                    try:
                        where += " ln%s" % fr.fn["blocks"][fr.b]["instrs"][fr.i].get("ln")
                    except Exception:
                        pass
                else:
                    where = "?"
                self.finish(s, "unsupported", "%s @ %s" % (e, where))
                continue
            if r == "stop":
                out.append(s)
                continue
            if r == "done":
                continue
            # fork request: r = ("fork", alts, join)
            _, alts, join, is_if = r
            if DEBUG_FORKS:
                f0 = s.frames[-1]
                print("FORK", f0.fn["name"].split("/")[-1], "b%d i%d" % (f0.b, f0.i), "is_if", is_if, "join", join, "depth", len(s.frames), "stop", stop)
            self.stats["forks"] += 1
            fname = s.frames[-1].fn["name"] if s.frames else "?"
            self.fn_stats[fname] = self.fn_stats.get(fname, 0) + 1
            children = []
            for idx, (cond, thunk) in enumerate(alts):
                c = s if idx == len(alts) - 1 else s.copy()
                if cond is not None:
                    c.assume(cond)
                children.append((c, thunk))
            if join is not None and self.merging and len(children) == 2:
                depth = len(s.frames)
                serial = s.frames[-1].serial
                mystop = ("ret", serial) if join == "ret" else ("blk", depth, join, serial)
                pre_pc_len = len(s.pc) - (1 if alts[-1][0] is not None else 0)
                arrived = []
                for c, thunk in children:
                    try:
                        thunk(c)
                    except (PathEnd, GoPanic, Unsupported) as e:
                        self._finish_exc(c, e)
                        continue
                    cf = c.frames[-1]
                    if join != "ret" and len(c.frames) == depth and cf.b == join and cf.i == cf.fn["blocks"][join]["nphi"] and cf.serial == serial:
                        arrived.append(c)
                    else:
                        arrived.extend(self.explore(c, mystop, base))
                merged = self.merge_all(arrived, pre_pc_len)
                # states in `merged` stand at block `join`; they may already be at the outer stop
                for m in merged:
                    if stop is not None and stop == mystop:
                        out.append(m)
                    else:
                        work.append(m)
            else:
                for c, thunk in children:
                    try:
                        thunk(c)
                    except (PathEnd, GoPanic, Unsupported) as e:
                        self._finish_exc(c, e)
                        continue
                    if stop is not None and is_if and stop[0] == "blk" and len(c.frames) == stop[1] and c.frames[-1].b == stop[2] and c.frames[-1].serial == stop[3]:
                        out.append(c)
                    else:
                        work.append(c)
        return out

    def _finish_exc(self, s, e):
        if isinstance(e, PathEnd):
            self.finish(s, e.kind, e.info)
        elif isinstance(e, GoPanic):
            self.finish(s, "panic", e.msg)
        else:
            self.finish(s, "unsupported", str(e))

    def merge_all(self, states, pre_pc_len):
        if len(states) <= 1:
            return states
        states = list(states)
        res = states[0]
        rest = []
        for s in states[1:]:
            try:
                res = self.merge(res, s, pre_pc_len)
                self.stats["merges"] += 1
            except MergeFail as e:
                self.stats["merge_fail"] += 1
                self.stats.setdefault("merge_fail_why", {})
                w = str(e)[:160]
                self.stats["merge_fail_why"][w] = self.stats["merge_fail_why"].get(w, 0) + 1
                rest.append(s)
        return [res] + rest

    # ---- merging
    def merge(self, a, b, pre_pc_len):
        if len(a.frames) != len(b.frames):
            raise MergeFail("depth")
        # common pc prefix
        k = 0
        n = min(len(a.pc), len(b.pc))
        while k < n and a.pc[k] is b.pc[k]:
            k += 1
        ea = a.pc[k:]
        eb = b.pc[k:]
        ga = z3.And(*ea) if len(ea) > 1 else (ea[0] if ea else True)
        gb = z3.And(*eb) if len(eb) > 1 else (eb[0] if eb else True)
        if ga is True or gb is True:
            raise MergeFail("no distinguishing guard")
        g = ga
        newpc_tail = None
        if self._neg.get(ea[0].get_id()) == eb[0].get_id() or self._neg.get(eb[0].get_id()) == ea[0].get_id():
            # the two arms of one branch: guard is the branch condition itself
            g = ea[0]
            xa = z3.And(*ea[1:]) if len(ea) > 2 else (ea[1] if len(ea) == 2 else None)
            xb = z3.And(*eb[1:]) if len(eb) > 2 else (eb[1] if len(eb) == 2 else None)
            if xa is None and xb is None:
                newpc_tail = ()
            else:
                newpc_tail = (z3.If(g, xa if xa is not None else z3.BoolVal(True), xb if xb is not None else z3.BoolVal(True)),)
        fa, fb = a.frames[-1], b.frames[-1]
        if fa.fn is not fb.fn or fa.b != fb.b or fa.i != fb.i:
            raise MergeFail("pc mismatch")
        if len(fa.defers) != len(fb.defers) or any(x is not y for x, y in zip(fa.defers, fb.defers)):
            raise MergeFail("defers differ")
        for x, y in zip(a.frames[:-1], b.frames[:-1]):
            if len(x.defers) != len(y.defers):
                raise MergeFail("lower defers differ")
        rt = self.ir.regtypes(fa.fn)
        newlocals = {}
        for r, va in fa.locals.items():
            if r not in fb.locals:
                continue
            vb = fb.locals[r]
            try:
                newlocals[r] = va if va is vb else self.merge_val(g, va, vb, rt.get(r))
            except MergeFail as e:
                raise MergeFail("%s [local %s in %s]" % (e, r, fa.fn["name"].split("/")[-1]))
        # heap
        newheap = {}
        ha, hb = a.heap, b.heap
        for oid, va in ha.items():
            vb = hb.get(oid, _MISSING)
            if vb is _MISSING or va is vb:
                newheap[oid] = va
            else:
                try:
                    newheap[oid] = self.merge_val(g, va, vb, self.objtype.get(oid))
                except MergeFail as e:
                    raise MergeFail("%s [heap obj %s : %s]" % (e, oid, self.objtype.get(oid)))
        for oid, vb in hb.items():
            if oid not in ha:
                newheap[oid] = vb
        # world
        neww = {}
        for key in set(a.world) | set(b.world):
            va = a.world.get(key, _MISSING)
            vb = b.world.get(key, _MISSING)
            if va is vb:
                neww[key] = va
            elif va is _MISSING or vb is _MISSING:
                raise MergeFail("world key %s" % key)
            else:
                m = getattr(va, "merge_with", None)
                if m is None:
                    if va == vb:
                        neww[key] = va
                        continue
                    raise MergeFail("world %s differs" % key)
                neww[key] = m(self, g, vb, None)
        if a.trace != b.trace:
            raise MergeFail("trace differs")
        res = a
        fa.locals = newlocals
        res.heap = newheap
        res.world = neww
        if newpc_tail is not None:
            res.pc = a.pc[:k] + newpc_tail
        else:
            disj = z3.simplify(z3.Or(ga, gb))
            res.pc = a.pc[:k] if z3.is_true(disj) else a.pc[:k] + (disj,)
        for name, cnt in b.counters.items():
            if res.counters.get(name, 0) < cnt:
                res.counters[name] = cnt
        if b.syms is not a.syms:
            seen = {n for n, _, _ in a.syms}
            res.syms = a.syms + tuple(x for x in b.syms if x[0] not in seen)
        for r, cnt in fb.visits.items():
            if fa.visits.get(r, 0) < cnt:
                fa.visits[r] = cnt
        return res

    def merge_val(self, g, a, b, tid):
        if a is b:
            return a
        ta = type(a)
        if ta is tuple:
            if type(b) is not tuple or len(a) != len(b):
                raise MergeFail("tuple shape")
            if tid is not None and tid.startswith("zz:") and tid not in self.ir.types:
                if a == b:
                    return a
                raise MergeFail("model object %s differs" % tid)
            u = self.ir.under(tid) if tid is not None else None
            if u is not None and u["k"] == "struct" and len(u["fields"]) == len(a):
                fs = u["fields"]
                return tuple(x if x is y else self.merge_val(g, x, y, fs[i]["t"]) for i, (x, y) in enumerate(zip(a, b)))
            if u is not None and u["k"] == "array":
                et = u["elem"]
                info = self.ir.intinfo(et)
                if info and info[0] == 8 and len(a) >= 4:
                    # byte arrays (hashes, addresses) are merged as one wide word, keeping hash terms intact
                    return self.unpack(z3.If(g, self.pack(a), self.pack(b)), len(a))
                return tuple(x if x is y else self.merge_val(g, x, y, et) for x, y in zip(a, b))
            if u is not None and u["k"] == "tuple" and len(u["elems"]) == len(a):
                return tuple(x if x is y else self.merge_val(g, x, y, u["elems"][i]) for i, (x, y) in enumerate(zip(a, b)))
            return tuple(x if x is y else self.merge_val(g, x, y, None) for x, y in zip(a, b))
        if ta is bool or isinstance(a, z3.BoolRef):
            if not (type(b) is bool or isinstance(b, z3.BoolRef)):
                raise MergeFail("bool vs other")
            if ta is bool and type(b) is bool and a == b:
                return a
            return z3.If(g, tobool(a), tobool(b))
        if is_arith(a) or is_arith(b):
            if isinstance(a, (bool, z3.BoolRef)) or isinstance(b, (bool, z3.BoolRef)):
                raise MergeFail("arith vs bool")
            xa, xb = toarith(a), toarith(b)
            if xa.is_int() != xb.is_int():
                xa = z3.ToReal(xa) if xa.is_int() else xa
                xb = z3.ToReal(xb) if xb.is_int() else xb
            return z3.If(g, xa, xb)
        if ta is int or isinstance(a, z3.BitVecRef):
            if not (type(b) is int or isinstance(b, z3.BitVecRef)):
                raise MergeFail("int vs other")
            if ta is int and type(b) is int:
                if a == b:
                    return a
                info = self.ir.intinfo(tid) if tid is not None else None
                if info is None:
                    raise MergeFail("int width unknown (%s)" % tid)
                bits = info[0]
            else:
                bits = a.size() if is_sym(a) else b.size()
            return z3.If(g, tobv(a, bits), tobv(b, bits))
        if (a is None or isinstance(a, (Iface, CondIface))) and (b is None or isinstance(b, (Iface, CondIface))) and \
                (a is None or b is None or isinstance(a, CondIface) or isinstance(b, CondIface)):
            if a is None and b is None:
                return None
            ng = z3.Not(g)
            alts = tuple((b_and(g, c), i) for c, i in _iface_alts(a)) + tuple((b_and(ng, c), i) for c, i in _iface_alts(b))
            return CondIface(alts)
        if a is None or b is None:
            raise MergeFail("nil vs non-nil %s" % tid)
        if ta is Iface:
            if type(b) is Iface:
                if a.tid == b.tid:
                    if a.val is b.val:
                        return a
                    try:
                        return Iface(a.tid, self.merge_val(g, a.val, b.val, a.tid))
                    except MergeFail:
                        pass
                return CondIface(((g, a), (z3.Not(g), b)))
            raise MergeFail("iface vs %s" % type(b).__name__)
        if ta is str:
            if a == b:
                return a
            return SymStr("opaque", "merge of different strings")  # only loggable; any use of the content is Unsupported
        if isinstance(a, (Ptr, Slice, MapRef, Closure)):
            if a == b:
                return a
            raise MergeFail("refs differ (%s)" % type(a).__name__)
        m = getattr(a, "merge_with", None)
        if m is not None:
            return m(self, g, b, tid)
        if a == b:
            return a
        raise MergeFail("unmergeable %s" % type(a).__name__)

    # ---- linear execution
    def jump(self, st, fr, target):
        blocks = fr.fn["blocks"]
        prev = fr.b
        blk = blocks[target]
        nphi = blk["nphi"]
        if nphi:
            idx = blk["preds"].index(prev)
            vals = []
            for ins in blk["instrs"][:nphi]:
                vals.append(self.val(st, fr, ins["edges"][idx]))
            for ins, v in zip(blk["instrs"][:nphi], vals):
                fr.locals[ins["r"]] = v
        fr.prev = prev
        fr.b = target
        fr.i = nphi
        c = fr.visits.get(target, 0) + 1
        fr.visits[target] = c
        if c > self.unwind:
            raise PathEnd("unwind", "%s block %d" % (fr.fn["name"], target))

    def run_linear(self, st, stop, base):
        ops = self.ops
        stats = self.stats
        while True:
            fr = st.frames[-1]
            ins = fr.fn["blocks"][fr.b]["instrs"][fr.i]
            op = ins["op"]
            stats["instrs"] += 1
            if op == "Jump":
                tgt = fr.fn["blocks"][fr.b]["succs"][0]
                self.jump(st, fr, tgt)
                if stop is not None and stop[0] == "blk" and tgt == stop[2] and len(st.frames) == stop[1] and fr.serial == stop[3]:
                    return "stop"
                continue
            if op == "If":
                c = self.val(st, fr, ins["x"])
                succs = fr.fn["blocks"][fr.b]["succs"]
                if is_sym(c):
                    c = simp(c)
                if c is True or c is False:
                    tgt = succs[0] if c else succs[1]
                    self.jump(st, fr, tgt)
                    if stop is not None and stop[0] == "blk" and tgt == stop[2] and len(st.frames) == stop[1] and fr.serial == stop[3]:
                        return "stop"
                    continue
                if isinstance(c, Opaque):
                    raise Unsupported("branch on opaque value: %s" % c.why)
                nc = b_not(c)
                self._neg[c.get_id()] = nc.get_id()
                self._neg[nc.get_id()] = c.get_id()
                self._keep.append((c, nc))
                join0 = self.ir.ipdom(fr.fn)[fr.b]
                if join0 < 0 and self.merging and self.ret_merging and len(st.frames) > base + 1 and not fr.discard:
                    join0 = 1 << 30  # will merge at the function's return
                qd = self.quick_decide(st, c)
                if qd is not None:
                    tgt = succs[0] if qd else succs[1]
                    self.jump(st, fr, tgt)
                    if stop is not None and stop[0] == "blk" and tgt == stop[2] and len(st.frames) == stop[1] and fr.serial == stop[3]:
                        return "stop"
                    continue
                if self.lazy_feasibility and self.merging and join0 >= 0:
                    # optimistic if-conversion: both arms are explored without a feasibility query; a path that ends
                    # badly inside an unchecked arm is checked for feasibility before it is reported (finish)
                    f1 = f2 = True
                    st.unchecked = True
                    self.stats["unchecked_branches"] = self.stats.get("unchecked_branches", 0) + 1
                else:
                    f1 = self.feasible(st, c)
                    f2 = self.feasible(st, nc) if f1 else True
                if f1 and f2:
                    join = self.ir.ipdom(fr.fn)[fr.b]
                    depth = len(st.frames)
                    t0, t1 = succs[0], succs[1]

                    def mk(tgt):
                        def thunk(s):
                            self.jump(s, s.frames[-1], tgt)
                        return thunk
                    if join < 0:
                        join = None
                        if self.merging and self.ret_merging and len(st.frames) > base + 1 and not fr.discard:
                            join = "ret"
                    # a branch directly to the join block is fine (jump evaluates phis)
                    return ("fork", [(c, mk(t0)), (nc, mk(t1))], join, True)
                tgt = succs[0] if f1 else succs[1]
                st.assume(c if f1 else nc)
                self.jump(st, fr, tgt)
                if stop is not None and stop[0] == "blk" and tgt == stop[2] and len(st.frames) == stop[1] and fr.serial == stop[3]:
                    return "stop"
                continue
            if op == "Return":
                rs = [self.val(st, fr, o) for o in ins["results"]]
                rv = rs[0] if len(rs) == 1 else tuple(rs)
                r = self.do_return(st, rv, base, stop)
                if r == "done":
                    return "done"
                if r == "stop":
                    return "stop"
                continue
            if op == "RunDefers":
                if fr.defers:
                    d = fr.defers.pop()
                    self.invoke_deferred(st, fr, d)
                    continue
                fr.i += 1
                continue
            h = ops.get(op)
            if h is None:
                raise Unsupported("instruction %s" % op)
            try:
                h(st, fr, ins)
            except Fork as f:
                # instruction-level fork: each alternative re-executes / completes the instruction itself
                return ("fork", f.alts, None, False)

    def do_return(self, st, rv, base, stop=None):
        fr = st.frames.pop()
        if len(st.frames) <= base:
            st.retval = rv
            self.finish(st, "returned", rv)
            return "done"
        caller = st.frames[-1]
        if fr.ret is not None and fr.ret[0] == "errgroup":
            # function started by errgroup.Group.Go (run inline): remember the first error for Wait
            key = ("errgroup_err", fr.ret[1])
            if st.world.get(key) is None and rv is not None:
                st.world[key] = rv
            caller.i += 1
            return None
        if fr.discard:
            return None  # deferred call: caller re-executes RunDefers
        cins = caller.fn["blocks"][caller.b]["instrs"][caller.i]
        if "r" in cins:
            caller.locals[cins["r"]] = rv
        caller.i += 1
        if stop is not None and stop[0] == "ret" and stop[1] == fr.serial:
            return "stop"
        return None

    def invoke_deferred(self, st, fr, d):
        fnv, args = d
        depth = len(st.frames)
        self.call_value(st, fr, fnv, args, None, deferred=True)
        # if the call was an intrinsic (no frame pushed), nothing else to do: RunDefers re-executes

    # ------------------------------------------------------------------ calls
    def call_value(self, st, fr, fnv, args, ins, deferred=False):
        """fnv: Closure. Either pushes a frame (callee has a body) or evaluates an intrinsic and assigns the result."""
        if fnv is None:
            raise GoPanic("call of nil func")
        if isinstance(fnv, Opaque):
            raise Unsupported("call of opaque func value: %s" % fnv.why)
        name = fnv.fn
        self.stats["calls"] += 1
        if TRACE_CALLS:
            print("  " * len(st.frames) + "CALL", name, [a if isinstance(a, (int, str, bool)) or a is None else type(a).__name__ for a in args][:6])
        intr = self.intrinsics.get(name)
        if intr is not None:
            self.current_binds = fnv.binds
            try:
                rv = intr(self, st, fr, args, ins)
            except (AttributeError, TypeError, KeyError, IndexError) as e:
                if os.environ.get("VERIF_DEBUG"):
                    import traceback
                    traceback.print_exc()
                # typically a nil argument on a path that is infeasible (unchecked arm); reported as unsupported and
                # dropped by finish() when the path condition is unsatisfiable
                raise Unsupported("model of %s failed: %s: %s" % (name, type(e).__name__, e))
            if rv is _PUSHED:
                if deferred:
                    st.frames[-1].discard = True
                return
            if not deferred:
                if ins is not None and "r" in ins:
                    fr.locals[ins["r"]] = rv
                fr.i += 1
            return
        f = self.ir.funcs.get(name)
        if f is None or f.get("external"):
            if st.lenient:
                rv = Opaque(name)
                if f is not None:
                    res = self.ir.T(f["sig"])["results"]
                    if len(res) > 1:
                        rv = tuple(Opaque(name) for _ in res)
                    elif len(res) == 0:
                        rv = None
                if not deferred:
                    if ins is not None and "r" in ins:
                        fr.locals[ins["r"]] = rv
                    fr.i += 1
                return
            raise Unsupported("call to unmodelled function %s" % name)
        nf = Frame(f)
        for i, a in enumerate(args):
            nf.locals["p:%d" % i] = a
        for i, b in enumerate(fnv.binds):
            nf.locals["fv:%d" % i] = b
        nf.discard = deferred
        if len(st.frames) > 400:
            raise PathEnd("unwind", "call depth")
        st.frames.append(nf)
        self.functions_entered.add(name)

    def push_call(self, st, fname, args, binds=()):
        """used by intrinsics that want to run a Go function: pushes the frame; intrinsic must return _PUSHED"""
        f = self.ir.funcs[fname]
        nf = Frame(f)
        for i, a in enumerate(args):
            nf.locals["p:%d" % i] = a
        for i, b in enumerate(binds):
            nf.locals["fv:%d" % i] = b
        st.frames.append(nf)
        self.functions_entered.add(fname)
        return _PUSHED

    def resolve_iface(self, st, v):
        """CondIface -> Iface or None, forking when both are feasible (the instruction is re-executed)"""
        if not isinstance(v, CondIface):
            return v
        for c0, iface in v.alts:
            c = c0 if (c0 is True or c0 is False) else simp(c0)
            if c is True:
                return iface
            if c is False:
                continue
            nc = b_not(c)
            self._neg[c.get_id()] = nc.get_id()
            self._neg[nc.get_id()] = c.get_id()
            self._keep.append((c, nc))
            if self.must(st, c):
                return iface
            if self.must(st, nc):
                continue
            raise Fork([(c, lambda s: None), (nc, lambda s: None)])
        return None

    def resolve_call(self, st, fr, ins):
        mode = ins["mode"]
        args = [self.val(st, fr, a) for a in ins["args"]]
        if mode == "static":
            return Closure(ins["fn"], ()), args
        if mode == "builtin":
            return Closure("builtin:" + ins["fn"], ()), args
        if mode == "dynamic":
            return self.val(st, fr, ins["fnv"]), args
        if mode == "invoke":
            recv = self.resolve_iface(st, self.val(st, fr, ins["recv"]))
            if recv is None:
                raise GoPanic("invoke %s on nil interface" % ins["method"])
            if isinstance(recv, Opaque):
                raise Unsupported("invoke %s on opaque value (%s)" % (ins["method"], recv.why))
            name = self.method_func(recv.tid, ins["method"])
            return Closure(name, ()), [recv.val] + args
        raise Unsupported("call mode %s" % mode)

    def method_func(self, tid, method):
        m = self.ir.methods.get(tid)
        if m is not None and method in m:
            return m[method]
        return "(%s).%s" % (tid, method)

    def op_call(self, st, fr, ins):
        if ins["mode"] == "builtin":
            args = [self.val(st, fr, a) for a in ins["args"]]
            rv = self.builtin(st, fr, ins, ins["fn"], args)
            if "r" in ins:
                fr.locals[ins["r"]] = rv
            fr.i += 1
            return
        fnv, args = self.resolve_call(st, fr, ins)
        self.call_value(st, fr, fnv, args, ins)

    def op_defer(self, st, fr, ins):
        fnv, args = self.resolve_call(st, fr, ins)
        fr.defers.append((fnv, args))
        fr.i += 1

    def op_go(self, st, fr, ins):
        fnv, args = self.resolve_call(st, fr, ins)
        h = self.intrinsics.get("go:" + (fnv.fn if isinstance(fnv, Closure) else "?"))
        if h is not None:
            h(self, st, fr, args, ins)
            fr.i += 1
            return
        if st.world.get("inline_go") and isinstance(fnv, Closure):
            # zzverif.InlineGo: the goroutine runs to completion here (sequential schedule; the harness's goroutines only
            # fill buffered channels and return)
            fr.i += 1
            self.push_call(st, fnv.fn, list(args), fnv.binds)
            st.frames[-1].discard = True
            return
        # record the goroutine as not run; harnesses decide whether that matters
        st.goroutines = st.goroutines + ((fnv, tuple(args)),)
        if not self.allow_go:
            raise Unsupported("go statement (%s)" % (fnv.fn if isinstance(fnv, Closure) else fnv))
        fr.i += 1

    allow_go = False
    ret_merging = True
    _neg = {}
    lazy_feasibility = True
    external_globals = {}
    current_binds = ()
    arith = "bv"
    vector = None
    params = {}
    dump_smt2 = False
    keccak_apps = {}
    _kuf = {}

    def keccak_facts(self):
        """K_n(c) = v for every concrete evaluation of Keccak made in this run whose length also occurs symbolically"""
        if len(self._facts_seen) != len(self.keccak_images):
            for (n, out), inp in self.keccak_images.items():
                if (n, out) in self._facts_seen or n not in self._kuf:
                    continue
                self._facts_seen.add((n, out))
                self._facts.append(self._kuf[n](z3.BitVecVal(inp, 8 * n)) == z3.BitVecVal(out, 256))
        return self._facts

    def keccak_uf(self, n):
        f = self._kuf.get(n)
        if f is None:
            f = z3.Function("K%d" % n, z3.BitVecSort(8 * n), z3.BitVecSort(256))
            self._kuf[n] = f
        return f

    def model_values(self, st, model):
        out = {}
        for name, e, kind in st.syms:
            v = model.eval(e, model_completion=True)
            if kind == "bool":
                out[name] = bool(z3.is_true(v))
            else:
                out[name] = "0x%x" % v.as_long()
        return out

    def tobv_any(self, v, bits):
        if is_arith(v):
            return z3.Int2BV(v, bits)
        return tobv(v, bits)

    # ------------------------------------------------------------------ simple ops
    def op_move(self, st, fr, ins):
        fr.locals[ins["r"]] = self.val(st, fr, ins["x"])
        fr.i += 1

    def op_alloc(self, st, fr, ins):
        fr.locals[ins["r"]] = self.alloc(st, ins["elem"])
        fr.i += 1

    def op_store(self, st, fr, ins):
        self.store(st, self.val(st, fr, ins["addr"]), self.val(st, fr, ins["val"]))
        fr.i += 1

    def op_extract(self, st, fr, ins):
        t = self.val(st, fr, ins["x"])
        if isinstance(t, Opaque):
            fr.locals[ins["r"]] = t
        else:
            fr.locals[ins["r"]] = t[ins["i"]]
        fr.i += 1

    def op_field(self, st, fr, ins):
        fr.locals[ins["r"]] = self.val(st, fr, ins["x"])[ins["i"]]
        fr.i += 1

    def op_fieldaddr(self, st, fr, ins):
        p = self.val(st, fr, ins["x"])
        if p is None:
            raise GoPanic("nil pointer dereference (field)")
        if isinstance(p, Opaque):
            raise Unsupported("field of opaque pointer: %s" % p.why)
        fr.locals[ins["r"]] = Ptr(p.obj, p.path + (ins["i"],))
        fr.i += 1

    def concrete_index(self, st, idx, n, what):
        """idx symbolic or concrete; returns a concrete int, or raises Fork over feasible values"""
        if not is_sym(idx):
            if idx < 0 or idx >= n:
                raise GoPanic("index out of range [%d] with length %d (%s)" % (idx, n, what))
            return idx
        s = z3.simplify(idx)
        if z3.is_bv_value(s) or z3.is_int_value(s):
            return self.concrete_index(st, s.as_long(), n, what)
        alts = []
        if is_arith(idx):
            for k in range(n):
                c = idx == k
                if self.feasible(st, c):
                    alts.append((c, None, k))
            oob = z3.Or(idx >= n, idx < 0)
        else:
            bits = idx.size()
            for k in range(n):
                c = idx == z3.BitVecVal(k, bits)
                if self.feasible(st, c):
                    alts.append((c, None, k))
            oob = z3.UGE(idx, z3.BitVecVal(n, bits))
        alts2 = []
        if self.feasible(st, oob):
            def pan(s):
                raise GoPanic("index out of range (symbolic) %s" % what)
            alts2.append((oob, pan))
        return ("fork", alts, alts2)

    def op_indexaddr(self, st, fr, ins):
        x = self.val(st, fr, ins["x"])
        idx = self.val(st, fr, ins["i"])
        if isinstance(x, Slice):
            n = x.len
        elif x is None:
            raise GoPanic("index of nil")
        elif isinstance(x, Opaque):
            raise Unsupported("index of opaque")
        else:
            n = self.ir.under(self.ir.under(ins["xt"])["elem"])["len"]
        k = self.concrete_index(st, idx, n, "IndexAddr")
        if isinstance(k, tuple):
            _, alts, alts2 = k
            reg = ins["x"]

            def mk(kk):
                def thunk(s):
                    f = s.frames[-1]
                    self._indexaddr(s, f, ins, self.val(s, f, ins["x"]), kk)
                return thunk
            raise Fork([(c, mk(kk)) for c, _, kk in alts] + alts2)
        self._indexaddr(st, fr, ins, x, k)

    def _indexaddr(self, st, fr, ins, x, k):
        if isinstance(x, Slice):
            p = Ptr(x.arr.obj, x.arr.path + (x.off + k,))
        else:
            p = Ptr(x.obj, x.path + (k,))
        fr.locals[ins["r"]] = p
        fr.i += 1

    def op_index(self, st, fr, ins):
        x = self.val(st, fr, ins["x"])
        idx = self.val(st, fr, ins["i"])
        if isinstance(x, str):
            k = self.concrete_index(st, idx, len(x.encode("latin-1", "replace")), "Index")
            if isinstance(k, tuple):
                raise Unsupported("symbolic string index")
            fr.locals[ins["r"]] = x.encode("utf-8")[k]
            fr.i += 1
            return
        n = len(x)
        k = self.concrete_index(st, idx, n, "Index")
        if isinstance(k, tuple):
            # build an ite chain instead of forking (value arrays of scalars)
            _, alts, alts2 = k
            et = self.ir.under(ins["xt"])["elem"]
            if not alts:
                if alts2:
                    raise GoPanic("index out of range (symbolic) Index")
                raise PathEnd("assume_false")  # no feasible index value: the path condition is unsatisfiable
            res = x[alts[-1][2]]
            for c, _, kk in reversed(alts[:-1]):
                res = self.merge_val(c, x[kk], res, et)
            if alts2:
                raise Unsupported("possibly out-of-range symbolic Index")
            fr.locals[ins["r"]] = res
            fr.i += 1
            return
        fr.locals[ins["r"]] = x[k]
        fr.i += 1

    def op_makeclosure(self, st, fr, ins):
        fr.locals[ins["r"]] = Closure(ins["fn"], tuple(self.val(st, fr, b) for b in ins["bindings"]))
        fr.i += 1

    def op_makeinterface(self, st, fr, ins):
        fr.locals[ins["r"]] = Iface(self.ir.canon(ins["xt"]), self.val(st, fr, ins["x"]))
        fr.i += 1

    def op_makemap(self, st, fr, ins):
        oid = st_oid(st)
        st.heap[oid] = GoMap((), {})
        self.objtype[oid] = ins["t"]
        fr.locals[ins["r"]] = MapRef(oid)
        fr.i += 1

    def op_makechan(self, st, fr, ins):
        oid = st_oid(st)
        size = self.val(st, fr, ins["size"])
        st.heap[oid] = GoChan((), size if isinstance(size, int) else 0, False)
        self.objtype[oid] = ins["t"]
        fr.locals[ins["r"]] = ChanRef(oid)
        fr.i += 1

    def op_makeslice(self, st, fr, ins):
        ln = self.val(st, fr, ins["len"])
        cp = self.val(st, fr, ins["cap"])
        if is_sym(cp) and not is_sym(ln):
            # symbolic capacity: it only matters for aliasing after append (the encoder reallocates on append beyond cap);
            # a capacity below the length (as a signed int) panics in Go
            bad = (cp < ln) if is_arith(cp) else (cp < z3.BitVecVal(ln, cp.size()))
            if self.feasible(st, bad):
                if self.feasible(st, z3.Not(bad)):
                    def pan(s):
                        raise GoPanic("makeslice: cap out of range")
                    raise Fork([(bad, pan), (z3.Not(bad), lambda s: None)])
                raise GoPanic("makeslice: cap out of range")
            cp = ln
        if is_sym(ln) or is_sym(cp):
            raise Unsupported("make([]T, symbolic)")
        if ln < 0 or cp < ln:
            raise GoPanic("makeslice: len out of range")
        et = self.ir.under(ins["t"])["elem"]
        fr.locals[ins["r"]] = self.new_slice(st, et, (self.zero(et),) * cp, ln)
        fr.i += 1

    def new_slice(self, st, et, elems, ln=None):
        elems = tuple(elems)
        oid = st_oid(st)
        st.heap[oid] = elems
        self.objtype[oid] = self.array_tid(et, len(elems))
        return Slice(Ptr(oid, ()), 0, len(elems) if ln is None else ln, len(elems))

    def array_tid(self, et, n):
        tid = "[%d]%s" % (n, et)
        if tid not in self.ir.types:
            self.ir.types[tid] = {"k": "array", "len": n, "elem": et}
        return tid

    def slice_elems(self, st, s):
        if s is None or s.arr is None or s.len == 0:
            return ()
        arr = self.load(st, s.arr)
        return arr[s.off:s.off + s.len]

    def op_slice(self, st, fr, ins):
        x = self.val(st, fr, ins["x"])
        lo = self.val(st, fr, ins["lo"]) if ins["lo"] is not None else None
        hi = self.val(st, fr, ins["hi"]) if ins["hi"] is not None else None
        mx = self.val(st, fr, ins["max"]) if ins["max"] is not None else None
        def cv(v):
            if not is_sym(v):
                return v
            v2 = z3.simplify(v)
            if z3.is_bv_value(v2) or z3.is_int_value(v2):
                return v2.as_long()
            # symbolic bound: concretise over the feasible values in [0, cap] (forks; the instruction is re-executed)
            if isinstance(x, Slice):
                top = x.cap
            elif isinstance(x, str):
                top = len(x.encode("utf-8"))
            elif x is None:
                top = 0
            else:
                top = 64
            alts = []
            for k in range(0, top + 1):
                c = (v == k) if is_arith(v) else (v == z3.BitVecVal(k, v.size()))
                if self.feasible(st, c):
                    alts.append((c, lambda s: None))
            oob = (z3.Or(v < 0, v > top)) if is_arith(v) else z3.UGT(v, z3.BitVecVal(top, v.size()))
            if self.feasible(st, oob):
                def pan(s):
                    raise GoPanic("slice bounds out of range (symbolic)")
                alts.append((oob, pan))
            if len(alts) == 1 and alts[0][1].__name__ == "<lambda>":
                st.assume(alts[0][0])
                m = self.solver.last_model
                for k in range(0, top + 1):
                    c = (v == k) if is_arith(v) else (v == z3.BitVecVal(k, v.size()))
                    if self.must(st, c):
                        return k
            raise Fork(alts)
        lo, hi, mx = cv(lo), cv(hi), cv(mx)
        xu = self.ir.under(ins["xt"])
        if isinstance(x, str) or (xu["k"] == "basic" and xu.get("cls") == "string"):
            if isinstance(x, SymStr):
                raise Unsupported("slice of symbolic string")
            b = x.encode("utf-8")
            lo = 0 if lo is None else lo
            hi = len(b) if hi is None else hi
            if not (0 <= lo <= hi <= len(b)):
                raise GoPanic("string slice bounds out of range")
            fr.locals[ins["r"]] = b[lo:hi].decode("utf-8", "surrogateescape")
            fr.i += 1
            return
        if xu["k"] == "ptr":  # pointer to array
            if x is None:
                raise GoPanic("slice of nil array pointer")
            n = self.ir.under(xu["elem"])["len"]
            arr, off, cap = x, 0, n
            ln = n
        else:
            if x is None:
                x = NIL_SLICE
            arr, off, cap, ln = x.arr, x.off, x.cap, x.len
        lo = 0 if lo is None else lo
        hi = ln if hi is None else hi
        mx = cap if mx is None else mx
        if not (0 <= lo <= hi <= mx <= cap):
            raise GoPanic("slice bounds out of range [%s:%s:%s] cap %s" % (lo, hi, mx, cap))
        if arr is None:
            fr.locals[ins["r"]] = NIL_SLICE
        else:
            fr.locals[ins["r"]] = Slice(arr, off + lo, hi - lo, mx - lo)
        fr.i += 1

    def op_slice2arr(self, st, fr, ins):
        x = self.val(st, fr, ins["x"])
        n = self.ir.under(self.ir.under(ins["t"])["elem"])["len"]
        if x is None or x.len < n:
            raise GoPanic("slice to array pointer: length")
        if x.arr is None:
            fr.locals[ins["r"]] = None
        elif x.off == 0 and len(self.load(st, x.arr)) == n:
            fr.locals[ins["r"]] = x.arr
        else:
            raise Unsupported("SliceToArrayPointer into the middle of an array")
        fr.i += 1

    def op_panic(self, st, fr, ins):
        v = self.val(st, fr, ins["x"])
        raise GoPanic("explicit panic: %r" % (v,))

    def op_typeassert(self, st, fr, ins):
        x = self.resolve_iface(st, self.val(st, fr, ins["x"]))
        at = self.ir.canon(ins["at"])
        commaok = ins["commaok"]
        if isinstance(x, Opaque):
            raise Unsupported("type assert on opaque value: %s" % x.why)
        atu = self.ir.under(at)
        ok = False
        if x is not None:
            if atu["k"] == "iface" and self.ir.T(at)["k"] != "typeparam":
                ok = self.implements(x.tid, atu)
            else:
                ok = x.tid == at
        if atu["k"] == "iface":
            res = x if ok else None
        else:
            res = x.val if ok else self.zero(at)
        if commaok:
            fr.locals[ins["r"]] = (res, ok)
        else:
            if not ok:
                raise GoPanic("interface conversion: %s is not %s" % (x.tid if x is not None else "nil", at))
            fr.locals[ins["r"]] = res
        fr.i += 1

    def implements(self, tid, iface_u):
        need = iface_u["methods"]
        if not need:
            return True
        have = self.ir.methods.get(tid)
        if have is None:
            have = self.ext_methods.get(tid, ())
        return all(m in have for m in need)

    # ------------------------------------------------------------------ arithmetic
    def op_binop(self, st, fr, ins):
        x = self.val(st, fr, ins["x"])
        y = self.val(st, fr, ins["y"])
        fr.locals[ins["r"]] = self.binop(st, ins["bop"], x, y, ins["xt"], ins["yt"], ins["t"])
        fr.i += 1

    def binop(self, st, op, x, y, xt, yt, rt):
        if isinstance(x, Opaque) or isinstance(y, Opaque):
            if st.lenient:
                return Opaque("binop")
            raise Unsupported("binop on opaque value")
        if op == "==":
            return self.eq(x, y, xt)
        if op == "!=":
            return b_not(self.eq(x, y, xt))
        xu = self.ir.under(xt)
        if xu["k"] != "basic":
            raise Unsupported("binop %s on %s" % (op, xu["k"]))
        cls = xu["cls"]
        if cls == "int":
            return self.int_binop(st, op, x, y, xu["bits"], xu["signed"], yt)
        if cls == "bool":
            if op in ("&&", "&"):
                return b_and(x, y)
            if op in ("||", "|"):
                return b_or(x, y)
            raise Unsupported("bool binop " + op)
        if cls == "string":
            if isinstance(x, str) and isinstance(y, str):
                if op == "+":
                    return x + y
                return {"<": x < y, "<=": x <= y, ">": x > y, ">=": x >= y}[op]
            if op == "+":
                return SymStr("cat", (x, y))
            raise Unsupported("string compare on symbolic strings")
        if cls == "float":
            return self.float_binop(op, x, y, xu["bits"])
        raise Unsupported("binop on %s" % cls)

    def float_binop(self, op, x, y, bits):
        if is_arith(x) or is_arith(y):
            # "real mode": floats are exact rationals (see DESIGN: float-exactness lemma); only used in integer mode
            self.stats["real_mode_float_ops"] = self.stats.get("real_mode_float_ops", 0) + 1
            fx, fy = toarith(x), toarith(y)
            if fx.is_int():
                fx = z3.ToReal(fx)
            if fy.is_int():
                fy = z3.ToReal(fy)
            if op == "+":
                return fx + fy
            if op == "-":
                return fx - fy
            if op == "*":
                return fx * fy
            if op == "/":
                return fx / fy
            return simp({"<": fx < fy, "<=": fx <= fy, ">": fx > fy, ">=": fx >= fy}[op])
        if not is_sym(x) and not is_sym(y):
            if op == "+":
                return x + y
            if op == "-":
                return x - y
            if op == "*":
                return x * y
            if op == "/":
                if y == 0:
                    return float("inf") if x > 0 else (float("-inf") if x < 0 else float("nan"))
                return x / y
            return {"<": x < y, "<=": x <= y, ">": x > y, ">=": x >= y}[op]
        srt = z3.Float64() if bits == 64 else z3.Float32()
        fx = x if is_sym(x) else z3.FPVal(x, srt)
        fy = y if is_sym(y) else z3.FPVal(y, srt)
        rm = z3.RNE()
        if op == "+":
            return z3.fpAdd(rm, fx, fy)
        if op == "-":
            return z3.fpSub(rm, fx, fy)
        if op == "*":
            return z3.fpMul(rm, fx, fy)
        if op == "/":
            return z3.fpDiv(rm, fx, fy)
        if op == "<":
            return z3.fpLT(fx, fy)
        if op == "<=":
            return z3.fpLEQ(fx, fy)
        if op == ">":
            return z3.fpGT(fx, fy)
        if op == ">=":
            return z3.fpGEQ(fx, fy)
        raise Unsupported("float op " + op)

    def int_binop_arith(self, st, op, x, y, bits, signed, yt=None):
        if op in ("<<", ">>"):
            if is_sym(y):
                y = conc_arith(y)
                if is_sym(y):
                    raise Unsupported("shift by symbolic count in integer mode")
            xe = toarith(x, signed)
            if op == "<<":
                return conc_arith(wrap_int(xe * (1 << y), bits, signed)) if y < bits else 0
            if signed:
                raise Unsupported("signed >> in integer mode")
            return conc_arith(xe / (1 << y)) if y < bits else 0
        xs = False
        xe, ye = toarith(x, signed), toarith(y, signed)
        if op == "+":
            r = xe + ye
            if signed:
                return conc_arith(wrap_int(r, bits, True))
            return conc_arith(z3.If(r >= (1 << bits), r - (1 << bits), r))
        if op == "-":
            r = xe - ye
            if signed:
                return conc_arith(wrap_int(r, bits, True))
            return conc_arith(z3.If(r < 0, r + (1 << bits), r))
        if op == "*":
            return conc_arith(wrap_int(xe * ye, bits, signed))
        if op in ("/", "%"):
            if signed:
                raise Unsupported("signed division in integer mode")
            zero = ye == 0
            if self.feasible(st, zero):
                def pan(s):
                    raise GoPanic("integer divide by zero (symbolic)")
                if self.feasible(st, z3.Not(zero)):
                    raise Fork([(zero, pan), (z3.Not(zero), lambda s: None)])
                raise GoPanic("integer divide by zero")
            return conc_arith(xe / ye if op == "/" else xe % ye)
        if op == "&" and not is_sym(y) and y >= 0 and (y + 1) & y == 0 and not signed:
            return conc_arith(xe % (y + 1))
        if op == "&" and not is_sym(x) and x >= 0 and (x + 1) & x == 0 and not signed:
            return conc_arith(ye % (x + 1))
        if op in ("<", "<=", ">", ">="):
            r = {"<": xe < ye, "<=": xe <= ye, ">": xe > ye, ">=": xe >= ye}[op]
            return simp(r)
        raise Unsupported("int op %s in integer mode" % op)

    def int_binop(self, st, op, x, y, bits, signed, yt=None):
        if is_arith(x) or is_arith(y):
            return self.int_binop_arith(st, op, x, y, bits, signed, yt)
        sx, sy = is_sym(x), is_sym(y)
        if op in ("<<", ">>"):
            yi = self.ir.intinfo(yt)
            ybits, ysigned = yi if yi else (bits, False)
            if not sx and not sy:
                if y < 0:
                    raise GoPanic("negative shift amount")
                if op == "<<":
                    return norm(x << min(y, bits), bits, signed) if y < bits else 0
                if y >= bits:
                    return (-1 if (signed and x < 0) else 0)
                return norm(x >> y, bits, signed)
            # symbolic: bring the count to the operand width with saturation
            if sy:
                if ybits > bits:
                    big = z3.UGE(y, z3.BitVecVal(bits, ybits))
                    cnt = z3.If(big, z3.BitVecVal(bits, bits), z3.Extract(bits - 1, 0, y))
                elif ybits < bits:
                    cnt = z3.ZeroExt(bits - ybits, y)
                else:
                    cnt = y
                if ybits <= bits:
                    cnt = z3.If(z3.UGE(cnt, z3.BitVecVal(bits, bits)), z3.BitVecVal(bits, bits), cnt)
            else:
                if y < 0:
                    raise GoPanic("negative shift amount")
                cnt = z3.BitVecVal(min(y, bits), bits)
            xb = tobv(x, bits)
            if op == "<<":
                r = xb << cnt
            elif signed:
                r = xb >> cnt
            else:
                r = z3.LShR(xb, cnt)
            return concretize_bv(r, bits, signed)
        if not sx and not sy:
            if op == "+":
                return norm(x + y, bits, signed)
            if op == "-":
                return norm(x - y, bits, signed)
            if op == "*":
                return norm(x * y, bits, signed)
            if op == "/":
                if y == 0:
                    raise GoPanic("integer divide by zero")
                q = abs(x) // abs(y)
                if (x < 0) != (y < 0):
                    q = -q
                return norm(q, bits, signed)
            if op == "%":
                if y == 0:
                    raise GoPanic("integer divide by zero")
                r = abs(x) % abs(y)
                if x < 0:
                    r = -r
                return norm(r, bits, signed)
            if op == "&":
                return norm(x & y, bits, signed)
            if op == "|":
                return norm(x | y, bits, signed)
            if op == "^":
                return norm(x ^ y, bits, signed)
            if op == "&^":
                return norm(x & ~y, bits, signed)
            if op == "<":
                return x < y
            if op == "<=":
                return x <= y
            if op == ">":
                return x > y
            if op == ">=":
                return x >= y
            raise Unsupported("int op " + op)
        xb, yb = tobv(x, bits), tobv(y, bits)
        if op == "+":
            r = xb + yb
        elif op == "-":
            r = xb - yb
        elif op == "*":
            r = xb * yb
        elif op in ("/", "%"):
            zero = yb == z3.BitVecVal(0, bits)
            if self.feasible(st, zero):
                # divide by zero possible: split
                if not hasattr(st, "_div_guard"):
                    pass
                def pan(s):
                    raise GoPanic("integer divide by zero (symbolic)")
                if self.feasible(st, z3.Not(zero)):
                    raise Fork([(zero, pan), (z3.Not(zero), lambda s: None)])
                raise GoPanic("integer divide by zero")
            if op == "/":
                r = (xb / yb) if signed else z3.UDiv(xb, yb)
            else:
                r = z3.SRem(xb, yb) if signed else z3.URem(xb, yb)
        elif op == "&":
            r = xb & yb
        elif op == "|":
            r = xb | yb
        elif op == "^":
            r = xb ^ yb
        elif op == "&^":
            r = xb & ~yb
        else:
            if op == "<":
                r = (xb < yb) if signed else z3.ULT(xb, yb)
            elif op == "<=":
                r = (xb <= yb) if signed else z3.ULE(xb, yb)
            elif op == ">":
                r = (xb > yb) if signed else z3.UGT(xb, yb)
            elif op == ">=":
                r = (xb >= yb) if signed else z3.UGE(xb, yb)
            else:
                raise Unsupported("int op " + op)
            return simp(r)
        return concretize_bv(r, bits, signed)

    def eq(self, x, y, tid):
        """Go == ; returns Python bool or z3 Bool"""
        if x is y and not isinstance(x, float):
            return True
        if isinstance(x, Opaque) or isinstance(y, Opaque):
            raise Unsupported("== on opaque")
        u = self.ir.under(tid)
        k = u["k"]
        if k == "basic":
            cls = u["cls"]
            if cls == "int":
                if not is_sym(x) and not is_sym(y):
                    return x == y
                if is_arith(x) or is_arith(y):
                    return simp(toarith(x, u["signed"]) == toarith(y, u["signed"]))
                return simp(tobv(x, u["bits"]) == tobv(y, u["bits"]))
            if cls == "bool":
                if not is_sym(x) and not is_sym(y):
                    return x == y
                return simp(tobool(x) == tobool(y))
            if cls == "string":
                return self.str_eq(x, y)
            if cls == "float":
                if not is_sym(x) and not is_sym(y):
                    return x == y
                if is_arith(x) or is_arith(y):
                    return simp(toarith(x) == toarith(y))
                srt = z3.Float64()
                return z3.fpEQ(x if is_sym(x) else z3.FPVal(x, srt), y if is_sym(y) else z3.FPVal(y, srt))
            if cls in ("unsafeptr", "nil"):
                return x == y
            raise Unsupported("== on basic %s" % cls)
        if k == "struct":
            r = True
            for i, f in enumerate(u["fields"]):
                r = b_and(r, self.eq(x[i], y[i], f["t"]))
                if r is False:
                    return False
            return r
        if k == "array":
            et = u["elem"]
            info = self.ir.intinfo(et)
            if info and info[0] == 8 and len(x) > 1:
                return self.bytes_eq(x, y)
            r = True
            for a, b in zip(x, y):
                r = b_and(r, self.eq(a, b, et))
                if r is False:
                    return False
            return r
        if k in ("ptr", "map", "chan", "func", "slice"):
            if k == "slice":
                xn = x is None or x.arr is None
                yn = y is None or y.arr is None
                if xn and yn:
                    return True
                if xn != yn:
                    return False
                raise Unsupported("slice == non-nil")
            return x == y
        if k == "iface":
            if isinstance(x, CondIface) or isinstance(y, CondIface):
                if y is None:
                    return b_not(simp(x.cond))
                if x is None:
                    return b_not(simp(y.cond))
                if isinstance(x, CondIface) and isinstance(y, CondIface):
                    raise Unsupported("== between two conditional interface values")
                ci, other = (x, y) if isinstance(x, CondIface) else (y, x)
                res, earlier = False, False
                for c, i in ci.alts:
                    e = self.eq(i, other, tid)
                    res = b_or(res, b_and(b_and(b_not(earlier) if earlier is not False else True, c), e))
                    earlier = b_or(earlier, c)
                return res if (res is True or res is False) else simp(res)
            if x is None or y is None:
                return x is None and y is None
            if x.tid != y.tid:
                return False
            return self.eq(x.val, y.val, x.tid)
        raise Unsupported("== on %s" % k)

    def str_eq(self, x, y):
        if isinstance(x, str) and isinstance(y, str):
            return x == y
        if isinstance(x, SymStr) and isinstance(y, SymStr) and x.kind == y.kind and x.kind in ("hex", "dec"):
            if x.kind == "hex":
                return self.bytes_eq(x.val, y.val) if len(x.val) == len(y.val) else False
        raise Unsupported("== on symbolic strings")

    def bytes_eq(self, x, y):
        if len(x) != len(y):
            return False
        if all(type(a) is int for a in x) and all(type(b) is int for b in y):
            return tuple(x) == tuple(y)
        px, py = self.pack(x), self.pack(y)
        if px.get_id() == py.get_id():
            return True
        return simp(px == py)

    def bytes_eq_inj(self, x, y):
        """equality of byte strings as decided by the store (keys): Keccak collision-freeness is applied"""
        if len(x) != len(y):
            return False
        if all(type(a) is int for a in x) and all(type(b) is int for b in y):
            return tuple(x) == tuple(y)
        px, py = self.pack(x), self.pack(y)
        if len(x) == 32 and self.keccak_injective:
            return self.heq(px, py)
        return simp(px == py)

    keccak_injective = True
    keccak_images = {}  # (n, output int) -> input int   (concrete evaluations seen in this run)

    def _is_kapp(self, t):
        return z3.is_app(t) and t.num_args() == 1 and t.decl().name().startswith("K") and t.decl().kind() == z3.Z3_OP_UNINTERPRETED

    def heq(self, a, b, depth=0):
        """equality of two 256-bit terms under the stated collision-freeness assumption for Keccak:
        K_n(x) = K_n(y) <=> x = y ; K_n(x) != K_m(y) for n != m ; K_n(x) = c for a concrete c that is a known image of p <=> x = p"""
        if a.get_id() == b.get_id():
            return True
        if z3.is_bv_value(a) and z3.is_bv_value(b):
            return a.as_long() == b.as_long()
        if depth > 200:
            return simp(a == b)
        key = (a.get_id(), b.get_id())
        r = self._heq_cache.get(key)
        if r is None:
            r = self._heq(a, b, depth)
            self._heq_cache[key] = r
            self._heq_cache[(key[1], key[0])] = r
            self._keep.append((a, b))
        return r

    _heq_cache = {}

    def _heq(self, a, b, depth):
        self.stats["heq"] = self.stats.get("heq", 0) + 1
        ia, ib = z3.is_app_of(a, z3.Z3_OP_ITE), z3.is_app_of(b, z3.Z3_OP_ITE)
        if (ia and ib) or ((ia or ib) and depth > 6):
            return a == b
        for x, y in ((a, b), (b, a)):
            if z3.is_app_of(x, z3.Z3_OP_ITE):
                c = x.arg(0)
                r1 = self.heq(x.arg(1), y, depth + 1)
                r2 = self.heq(x.arg(2), y, depth + 1)
                if r1 is r2 or (r1 is True and r2 is True) or (r1 is False and r2 is False):
                    return r1
                if r1 is True:
                    return b_or(c, r2)
                if r1 is False:
                    return b_and(z3.Not(c), r2)
                if r2 is True:
                    return b_or(z3.Not(c), r1)
                if r2 is False:
                    return b_and(c, r1)
                return z3.If(c, r1, r2)
        ka, kb = self._is_kapp(a), self._is_kapp(b)
        if ka and kb:
            if a.decl().name() != b.decl().name():
                return False
            return self.arg_eq(a.arg(0), b.arg(0), depth + 1)
        if (ka and z3.is_bv_value(b)) or (kb and z3.is_bv_value(a)):
            k, v = (a, b) if ka else (b, a)
            n = k.arg(0).size() // 8
            pre = self.keccak_images.get((n, v.as_long()))
            if pre is not None:
                return self.arg_eq(k.arg(0), z3.BitVecVal(pre, 8 * n), depth + 1)
            if self.keccak_no_unknown_preimage:
                # a hash output never equals a constant that this run has not produced as a hash of that length
                return False
        if self.keccak_no_unknown_preimage and (ka or kb):
            o = b if ka else a
            if z3.is_const(o) and o.decl().kind() == z3.Z3_OP_UNINTERPRETED:
                # a fresh 32-byte input is never a Keccak image computed in this run (no accidental coincidence)
                self.stats["heq_fresh_vs_hash"] = self.stats.get("heq_fresh_vs_hash", 0) + 1
                return False
        return simp(a == b)

    keccak_no_unknown_preimage = True

    def arg_eq(self, x, y, depth):
        if x.get_id() == y.get_id():
            return True
        w = x.size()
        if w % 256 == 0 and w > 256:
            r = True
            for i in range(w // 256):
                hi = w - 256 * i - 1
                xa = z3.simplify(z3.Extract(hi, hi - 255, x))
                ya = z3.simplify(z3.Extract(hi, hi - 255, y))
                r = b_and(r, self.heq(xa, ya, depth))
                if r is False:
                    return False
            return r if (r is True or r is False) else simp(r)
        if w == 256:
            return self.heq(x, y, depth)
        if w > 256:
            # hash inputs of other lengths (e.g. 32+32+8+32 bytes): compare along the concatenation structure, so that 32-byte
            # parts that are themselves hashes are compared with heq
            px, py = self._concat_parts(x), self._concat_parts(y)
            if len(px) > 1 or len(py) > 1:
                cuts = sorted({c for c, _ in px} | {c for c, _ in py} | {w}, reverse=True)
                r = True
                for hi1, lo in zip(cuts, cuts[1:] + [0]):
                    if hi1 == lo:
                        continue
                    xa, ya = self._segment(x, px, hi1, lo), self._segment(y, py, hi1, lo)
                    e = self.heq(xa, ya, depth) if hi1 - lo == 256 else simp(xa == ya)
                    r = b_and(r, e)
                    if r is False:
                        return False
                return r if (r is True or r is False) else simp(r)
        return simp(x == y)

    def _concat_parts(self, t):
        """[(bit position just above the part, part)] for the top-level concatenation structure of t"""
        out = []

        def walk(u, top):
            if z3.is_app_of(u, z3.Z3_OP_CONCAT):
                for k in range(u.num_args()):
                    c = u.arg(k)
                    walk(c, top)
                    top -= c.size()
            else:
                out.append((top, u))
        walk(t, t.size())
        return out

    def _segment(self, t, parts, hi1, lo):
        for top, u in parts:
            if top == hi1 and top - u.size() == lo:
                return u
        return z3.simplify(z3.Extract(hi1 - 1, lo, t))

    # ---- byte packing (big endian: byte 0 is most significant)
    _pack_cache = {}

    def pack(self, bs):
        """tuple of byte values -> one z3 BitVec(8n) (or BitVecVal)"""
        n = len(bs)
        if all(type(b) is int for b in bs):
            return z3.BitVecVal(int.from_bytes(bytes(bs), "big"), 8 * n)
        key = tuple(b if type(b) is int else ("e", b.get_id()) for b in bs)
        r = self._pack_cache.get(key)
        if r is not None:
            return r
        # group runs of Extract from the same term
        parts = []
        i = 0
        while i < n:
            b = bs[i]
            if type(b) is int:
                j = i
                while j < n and type(bs[j]) is int:
                    j += 1
                parts.append(z3.BitVecVal(int.from_bytes(bytes(bs[i:j]), "big"), 8 * (j - i)))
                i = j
                continue
            src = self._unpack_src.get(b.get_id())
            if src is not None:
                term, hi = src
                j = i + 1
                h = hi
                while j < n and type(bs[j]) is not int:
                    s2 = self._unpack_src.get(bs[j].get_id())
                    if s2 is None or s2[0] is not term or s2[1] != h - 8:
                        break
                    h -= 8
                    j += 1
                lo = h - 7
                if hi == term.size() - 1 and lo == 0:
                    parts.append(term)
                else:
                    parts.append(z3.Extract(hi, lo, term))
                i = j
                continue
            parts.append(b)
            i += 1
        r = parts[0] if len(parts) == 1 else z3.Concat(*parts)
        self._pack_cache[key] = r
        return r

    _unpack_src = {}
    _unpack_cache = {}
    _keep = []

    def unpack(self, term, n):
        """z3 BitVec(8n) -> tuple of n byte terms"""
        if z3.is_bv_value(term):
            return tuple(term.as_long().to_bytes(n, "big"))
        tidx = term.get_id()
        r = self._unpack_cache.get(tidx)
        if r is not None:
            return r
        out = []
        for i in range(n):
            hi = 8 * (n - i) - 1
            e = z3.Extract(hi, hi - 7, term)
            self._unpack_src[e.get_id()] = (term, hi)
            out.append(e)
        r = tuple(out)
        self._unpack_cache[tidx] = r
        self._keep.append(term)
        self._keep.append(r)
        return r

    def op_unop(self, st, fr, ins):
        op = ins["uop"]
        x = self.val(st, fr, ins["x"])
        if op == "*":
            fr.locals[ins["r"]] = self.load(st, x)
            fr.i += 1
            return
        if op == "<-":
            return self.op_recv(st, fr, ins, x)
        if isinstance(x, Opaque):
            raise Unsupported("unop on opaque")
        if op == "!":
            fr.locals[ins["r"]] = b_not(x)
        elif op == "-":
            info = self.ir.intinfo(ins["t"])
            if is_arith(x):
                fr.locals[ins["r"]] = conc_arith(wrap_int(-x, *info)) if info else -x
            elif info is None:
                fr.locals[ins["r"]] = -x if not is_sym(x) else z3.fpNeg(x)
            elif is_sym(x):
                fr.locals[ins["r"]] = concretize_bv(-x, *info)
            else:
                fr.locals[ins["r"]] = norm(-x, *info)
        elif op == "^":
            info = self.ir.intinfo(ins["t"])
            if is_sym(x):
                fr.locals[ins["r"]] = concretize_bv(~x, *info)
            else:
                fr.locals[ins["r"]] = norm(~x, *info)
        else:
            raise Unsupported("unop " + op)
        fr.i += 1

    def op_convert(self, st, fr, ins):
        x = self.val(st, fr, ins["x"])
        fr.locals[ins["r"]] = self.convert(st, x, ins["xt"], ins["t"])
        fr.i += 1

    def convert(self, st, x, xt, rt):
        if isinstance(x, Opaque):
            return x
        xu, ru = self.ir.under(xt), self.ir.under(rt)
        xi, ri = self.ir.intinfo(xt), self.ir.intinfo(rt)
        if xi and ri:
            xb, xs = xi
            rb, rs = ri
            if not is_sym(x):
                return norm(x, rb, rs)
            if is_arith(x):
                if (not xs and not rs and rb >= xb) or (xs and rs and rb >= xb) or (not xs and rs and rb > xb):
                    return x
                return conc_arith(wrap_int(x, rb, rs))
            if rb == xb:
                return x
            if rb < xb:
                return concretize_bv(z3.Extract(rb - 1, 0, x), rb, rs)
            return concretize_bv(z3.SignExt(rb - xb, x) if xs else z3.ZeroExt(rb - xb, x), rb, rs)
        xk, rk = xu["k"], ru["k"]
        if xk == "basic" and rk == "basic":
            xc, rc = xu["cls"], ru["cls"]
            if xc == "int" and rc == "float":
                if not is_sym(x):
                    return float(x)
                if is_arith(x):
                    return z3.ToReal(x)
                srt = z3.Float64() if ru["bits"] == 64 else z3.Float32()
                return z3.fpSignedToFP(z3.RNE(), x, srt) if xi[1] else z3.fpUnsignedToFP(z3.RNE(), x, srt)
            if xc == "float" and rc == "int":
                if not is_sym(x):
                    if x != x or x in (float("inf"), float("-inf")):
                        return 0
                    return norm(int(x), ri[0], ri[1])
                return z3.fpToSBV(z3.RTZ(), x, z3.BitVecSort(ri[0])) if ri[1] else z3.fpToUBV(z3.RTZ(), x, z3.BitVecSort(ri[0]))
            if xc == "float" and rc == "float":
                if not is_sym(x):
                    return x
                return z3.fpFPToFP(z3.RNE(), x, z3.Float64() if ru["bits"] == 64 else z3.Float32())
            if xc == "string" and rc == "string":
                return x
            if xc == "int" and rc == "string":
                if is_sym(x):
                    raise Unsupported("string(symbolic int)")
                return chr(x)
            if xc == "unsafeptr" or rc == "unsafeptr":
                return x
        if xk == "basic" and xu.get("cls") == "string" and rk == "slice":
            if isinstance(x, SymStr):
                raise Unsupported("[]byte(symbolic string)")
            et = ru["elem"]
            if self.ir.intinfo(et)[0] == 8:
                return self.new_slice(st, et, tuple(x.encode("utf-8", "surrogateescape")))
            return self.new_slice(st, et, tuple(ord(c) for c in x))
        if xk == "slice" and rk == "basic" and ru.get("cls") == "string":
            el = self.slice_elems(st, x)
            if any(is_sym(b) for b in el):
                return SymStr("bytes", tuple(el))
            if self.ir.intinfo(xu["elem"])[0] == 8:
                return bytes(el).decode("utf-8", "surrogateescape")
            return "".join(chr(c) for c in el)
        if xk == "slice" and rk == "array":
            el = self.slice_elems(st, x)
            if len(el) < ru["len"]:
                raise GoPanic("slice to array: length")
            return tuple(el[:ru["len"]])
        if xk == "ptr" and rk == "ptr":
            return x
        raise Unsupported("convert %s -> %s" % (xt, rt))

    # ------------------------------------------------------------------ maps / ranges / chans
    def map_key(self, k):
        """hashable key for concrete keys; None when the key contains symbolic parts"""
        t = type(k)
        if t in (int, str, bool, float) or k is None:
            return (t.__name__, k)
        if t is tuple:
            parts = []
            for e in k:
                m = self.map_key(e)
                if m is None:
                    return None
                parts.append(m)
            return ("t", tuple(parts))
        if isinstance(k, (Ptr, MapRef)):
            return ("p", k)
        if t is Iface:
            m = self.map_key(k.val)
            return None if m is None else ("i", k.tid, m)
        return None

    def op_mapupdate(self, st, fr, ins):
        m = self.val(st, fr, ins["m"])
        k = self.val(st, fr, ins["k"])
        v = self.val(st, fr, ins["v"])
        if m is None:
            raise GoPanic("assignment to entry in nil map")
        gm = st.heap[m.obj]
        st.heap[m.obj] = gm.set(self, st, k, v, self.ir.under(ins["mt"]))
        fr.i += 1

    def op_lookup(self, st, fr, ins):
        x = self.val(st, fr, ins["x"])
        k = self.val(st, fr, ins["i"])
        xu = self.ir.under(ins["xt"])
        if xu["k"] == "basic":  # string index
            if isinstance(x, SymStr) or is_sym(k):
                raise Unsupported("symbolic string lookup")
            b = x.encode("utf-8")
            if k < 0 or k >= len(b):
                raise GoPanic("string index out of range")
            fr.locals[ins["r"]] = b[k]
            fr.i += 1
            return
        zero = self.zero(xu["elem"])
        if x is None:
            res, ok = zero, False
        else:
            gm = st.heap[x.obj]
            try:
                res, ok = gm.get(self, st, k, zero, xu)
            except MergeFail:
                # values that cannot be merged into one term (e.g. nil vs non-nil pointers): one path per matching entry
                alts, none = [], True
                for ek, ev in list(gm.conc.values()) + list(gm.sym):
                    c = self.eq(k, ek, xu["key"])
                    if c is False:
                        continue

                    def mk(ev=ev):
                        def thunk(s):
                            f = s.frames[-1]
                            f.locals[ins["r"]] = (ev, True) if ins["commaok"] else ev
                            f.i += 1
                        return thunk
                    if c is True:
                        alts, none = [(None, mk())], False
                        break
                    alts.append((c, mk()))
                    none = b_and(none, z3.Not(c))
                if none is not False:
                    def miss(s):
                        f = s.frames[-1]
                        f.locals[ins["r"]] = (zero, False) if ins["commaok"] else zero
                        f.i += 1
                    alts.append((None if none is True else none, miss))
                raise Fork(alts)
        fr.locals[ins["r"]] = (res, ok) if ins["commaok"] else res
        fr.i += 1

    def op_range(self, st, fr, ins):
        x = self.val(st, fr, ins["x"])
        xu = self.ir.under(ins["xt"])
        if xu["k"] == "map":
            if x is None:
                items = ()
            else:
                items = st.heap[x.obj].items_list()
            oid = st_oid(st)
            st.heap[oid] = ("mapiter", tuple(items), 0)
            fr.locals[ins["r"]] = Ptr(oid, ())
        elif xu["k"] == "basic":
            if isinstance(x, SymStr):
                raise Unsupported("range over symbolic string")
            oid = st_oid(st)
            items = []
            off = 0
            for ch in x:
                items.append((off, ord(ch)))
                off += len(ch.encode("utf-8", "surrogateescape"))
            st.heap[oid] = ("striter", tuple(items), 0)
            fr.locals[ins["r"]] = Ptr(oid, ())
        else:
            raise Unsupported("range over %s" % xu["k"])
        fr.i += 1

    def op_next(self, st, fr, ins):
        it = self.val(st, fr, ins["iter"])
        kind, items, pos = st.heap[it.obj]
        if pos >= len(items):
            fr.locals[ins["r"]] = (False, None, None)
        else:
            k, v = items[pos]
            st.heap[it.obj] = (kind, items, pos + 1)
            fr.locals[ins["r"]] = (True, k, v)
        fr.i += 1

    def op_send(self, st, fr, ins):
        ch = self.val(st, fr, ins["chan"])
        v = self.val(st, fr, ins["x"])
        if ch is None:
            raise PathEnd("blocked", "send on nil channel")
        c = st.heap[ch.obj]
        if c.closed:
            raise GoPanic("send on closed channel")
        st.heap[ch.obj] = GoChan(c.items + (v,), c.cap, c.closed)
        fr.i += 1

    def op_recv(self, st, fr, ins, ch):
        if ch is None:
            raise PathEnd("blocked", "recv on nil channel")
        c = st.heap[ch.obj]
        et = self.ir.under(self.objtype[ch.obj])["elem"]
        if c.items:
            v = c.items[0]
            st.heap[ch.obj] = GoChan(c.items[1:], c.cap, c.closed)
            ok = True
        elif c.closed:
            v, ok = self.zero(et), False
        else:
            wb = st.world.get("when_blocked", ())
            if wb:
                # cooperative scheduling: the thread blocks, a function registered with zzverif.WhenBlocked runs (natively it is a
                # goroutine that has been waiting for what this thread sent), then the receive is tried again
                st.world["when_blocked"] = wb[1:]
                self.push_call(st, wb[0].fn, [], wb[0].binds)
                st.frames[-1].discard = True
                return
            raise PathEnd("blocked", "recv on empty channel")
        fr.locals[ins["r"]] = (v, ok) if ins["commaok"] else v
        fr.i += 1

    def op_select(self, st, fr, ins):
        """select over modelled channels: a receive is ready when the queue is non-empty or the channel is closed; a send is
        always ready (queues are unbounded). Several ready cases fork; none ready: default if present, else the path blocks."""
        ready = []
        states = ins["states"]
        for idx, sdesc in enumerate(states):
            ch = self.val(st, fr, sdesc["chan"])
            if ch is None:
                continue
            c = st.heap[ch.obj]
            if sdesc["dir"] == 2:  # RecvOnly
                if c.items or c.closed:
                    ready.append(idx)
            else:
                if c.closed:
                    raise GoPanic("send on closed channel (select)")
                ready.append(idx)
        nrecv = [i for i, sdesc in enumerate(states) if sdesc["dir"] == 2]

        def complete(s, f, idx):
            vals = [idx, False]
            for i in nrecv:
                vals.append(None)
            if idx >= 0:
                sdesc = states[idx]
                ch = self.val(s, f, sdesc["chan"])
                c = s.heap[ch.obj]
                et = self.ir.under(self.objtype[ch.obj])["elem"]
                if sdesc["dir"] == 2:
                    if c.items:
                        v, ok = c.items[0], True
                        s.heap[ch.obj] = GoChan(c.items[1:], c.cap, c.closed)
                    else:
                        v, ok = self.zero(et), False
                    vals[1] = ok
                    vals[2 + nrecv.index(idx)] = v
                else:
                    s.heap[ch.obj] = GoChan(c.items + (self.val(s, f, sdesc["send"]),), c.cap, c.closed)
            # zero values for the other receive slots
            for k, i in enumerate(nrecv):
                if vals[2 + k] is None and i != idx:
                    chv = self.val(s, f, states[i]["chan"])
                    if chv is not None:
                        vals[2 + k] = self.zero(self.ir.under(self.objtype[chv.obj])["elem"])
            f.locals[ins["r"]] = tuple(vals)
            f.i += 1
        if not ready:
            if ins["blocking"]:
                raise PathEnd("blocked", "select with no ready case")
            complete(st, fr, -1)
            return
        if len(ready) == 1:
            complete(st, fr, ready[0])
            return

        def mk(idx):
            return lambda s: complete(s, s.frames[-1], idx)
        raise Fork([(None, mk(i)) for i in ready])

    # ------------------------------------------------------------------ builtins
    def builtin(self, st, fr, ins, name, args):
        if name == "len":
            x = args[0]
            if x is None:
                return 0
            if isinstance(x, Slice):
                return x.len
            if isinstance(x, str):
                return len(x.encode("utf-8", "surrogateescape"))
            if isinstance(x, MapRef) and not isinstance(x, ChanRef):
                return st.heap[x.obj].length()
            if isinstance(x, ChanRef):
                return len(st.heap[x.obj].items)
            if isinstance(x, tuple):
                return len(x)
            if isinstance(x, SymStr):
                return self.symstr_len(x)
            if isinstance(x, Ptr):
                return self.ir.under(self.ir.under(ins["argtypes"][0])["elem"])["len"]
            raise Unsupported("len of %r" % type(x))
        if name == "cap":
            x = args[0]
            if x is None:
                return 0
            if isinstance(x, Slice):
                return x.cap
            if isinstance(x, ChanRef):
                return st.heap[x.obj].cap
            raise Unsupported("cap")
        if name == "append":
            s, t = args
            if t is None or (isinstance(t, Slice) and t.len == 0):
                return s if s is not None else NIL_SLICE
            if isinstance(t, str):
                add = tuple(t.encode("utf-8", "surrogateescape"))
            else:
                add = self.slice_elems(st, t)
            if s is None:
                s = NIL_SLICE
            et = self.ir.under(ins["t"])["elem"]
            if s.arr is not None and s.len + len(add) <= s.cap:
                arr = self.load(st, s.arr)
                pos = s.off + s.len
                self.store(st, s.arr, arr[:pos] + add + arr[pos + len(add):])
                return Slice(s.arr, s.off, s.len + len(add), s.cap)
            old = self.slice_elems(st, s)
            newcap = max(2 * s.cap, s.len + len(add)) if s.cap < 256 else max(s.cap + s.cap // 4, s.len + len(add))
            elems = old + add + (self.zero(et),) * (newcap - s.len - len(add))
            return self.new_slice(st, et, elems, s.len + len(add))
        if name == "copy":
            d, s = args
            if isinstance(s, str):
                src = tuple(s.encode("utf-8", "surrogateescape"))
            else:
                src = self.slice_elems(st, s)
            if d is None or d.arr is None:
                return 0
            n = min(d.len, len(src))
            if n:
                arr = self.load(st, d.arr)
                self.store(st, d.arr, arr[:d.off] + tuple(src[:n]) + arr[d.off + n:])
            return n
        if name == "delete":
            m, k = args
            if m is not None:
                st.heap[m.obj] = st.heap[m.obj].delete(self, st, k)
            return None
        if name == "panic":
            raise GoPanic("panic: %r" % (args[0],))
        if name in ("print", "println"):
            return None
        if name in ("min", "max"):
            info = self.ir.intinfo(ins["t"])
            r = args[0]
            for a in args[1:]:
                if not is_sym(r) and not is_sym(a):
                    r = min(r, a) if name == "min" else max(r, a)
                else:
                    if is_arith(r) or is_arith(a):
                        ra, aa = toarith(r), toarith(a)
                        r = z3.If(ra < aa, ra, aa) if name == "min" else z3.If(ra < aa, aa, ra)
                        continue
                    if info is None:
                        raise Unsupported("min/max on non-int symbolic")
                    bits, signed = info
                    rb, ab = tobv(r, bits), tobv(a, bits)
                    lt = (rb < ab) if signed else z3.ULT(rb, ab)
                    r = z3.If(lt, rb, ab) if name == "min" else z3.If(lt, ab, rb)
            return r
        if name == "recover":
            return None
        if name == "close":
            c = st.heap[args[0].obj]
            st.heap[args[0].obj] = GoChan(c.items, c.cap, True)
            return None
        if name == "ssa:wrapnilchk":
            if args[0] is None:
                raise GoPanic("value method called using nil pointer")
            return args[0]
        if name == "clear":
            x = args[0]
            if isinstance(x, MapRef):
                st.heap[x.obj] = GoMap((), {})
                return None
            if x is None or x is NIL_SLICE:
                return None
            if isinstance(x, Slice):
                et = self.ir.under(ins["args_t"][0])["elem"] if "args_t" in ins else None
                if et is None:
                    at = self.ir.under(self.objtype[x.arr.obj])
                    et = at["elem"]
                z = self.zero(et)
                arr = list(self.load(st, x.arr))
                for i in range(x.off, x.off + x.len):
                    arr[i] = z
                self.store(st, x.arr, tuple(arr))
                return None
            raise Unsupported("clear on %s" % type(x).__name__)
        if name == "new":
            raise Unsupported("builtin new")
        raise Unsupported("builtin " + name)

    def symstr_len(self, x):
        if x.kind == "hex":
            return 2 + 2 * len(x.val)
        raise Unsupported("len of symbolic string kind %s" % x.kind)

    # ------------------------------------------------------------------ initial state
    def initial_state(self):
        st = State()
        return st

    def run_init(self, st, pkgs):
        """execute the package initialisers (lenient mode)"""
        st.lenient = True
        old_merging = self.merging
        for p in pkgs:
            name = p + ".init"
            if name not in self.ir.funcs or self.ir.funcs[name].get("external"):
                continue
            nres = len(self.results)
            base = len(st.frames)
            self.start(st, name, ())
            self.explore(st, None, base)
            new = self.results[nres:]
            del self.results[nres:]
            oks = [r for r in new if r[0] == "returned"]
            if len(oks) != 1 or len(new) != 1:
                # the initialiser could not be executed completely: its globals become unusable (never silently zero)
                st = new[0][2]
                st.frames = st.frames[:base]
                st.pc = ()
                st.world["init_failed"] = st.world.get("init_failed", ()) + ((p, str([(k, i) for k, i, _ in new])[:300]),)
                continue
            st = oks[0][2]
            st.frames = st.frames[:base]
        st.lenient = False
        self.merging = old_merging
        return st


_MISSING = object()
_PUSHED = object()


class GoMap:
    """persistent Go map: concrete keys in a dict (copied on write), symbolic keys in an assoc tuple"""
    __slots__ = ("sym", "conc")

    def __init__(self, sym, conc):
        self.sym = sym  # tuple of (key, value)
        self.conc = conc  # dict hashable -> (key, value); insertion ordered

    def length(self):
        if self.sym:
            raise Unsupported("len of map with symbolic keys")
        return len(self.conc)

    def items_list(self):
        if self.sym:
            raise Unsupported("range over map with symbolic keys")
        return list(self.conc.values())

    def get(self, eng, st, k, zero, mu):
        hk = eng.map_key(k)
        if hk is not None and not self.sym:
            e = self.conc.get(hk)
            return (e[1], True) if e is not None else (zero, False)
        # symbolic: ite chain over all entries
        kt = mu["key"]
        et = mu["elem"]
        res, ok = zero, False
        entries = list(self.conc.values()) + list(self.sym)
        for ek, ev in entries:
            c = eng.eq(k, ek, kt)
            if c is False:
                continue
            if c is True:
                res, ok = ev, True
                continue
            res = eng.merge_val(c, ev, res, et)
            ok = b_ite(c, True, ok) if not (ok is True) else True
            if ok is not True and ok is not False:
                ok = z3.simplify(ok) if is_sym(ok) else ok
        return res, ok

    def set(self, eng, st, k, v, mu):
        hk = eng.map_key(k)
        if hk is not None and not self.sym:
            d = dict(self.conc)
            d[hk] = (k, v)
            return GoMap(self.sym, d)
        # symbolic key: must be provably distinct from or equal to existing keys
        kt = mu["key"]
        entries = list(self.conc.values()) + list(self.sym)
        for idx, (ek, ev) in enumerate(entries):
            c = eng.eq(k, ek, kt)
            if c is False:
                continue
            if c is True or eng.must(st, c):
                # overwrite
                if idx < len(self.conc):
                    d = dict(self.conc)
                    d[eng.map_key(ek)] = (ek, v)
                    return GoMap(self.sym, d)
                j = idx - len(self.conc)
                return GoMap(self.sym[:j] + ((ek, v),) + self.sym[j + 1:], self.conc)
            if eng.feasible(st, c):
                raise Unsupported("map update with key that may alias an existing key")
        return GoMap(self.sym + ((k, v),), self.conc)

    def delete(self, eng, st, k):
        hk = eng.map_key(k)
        if hk is not None and not self.sym:
            if hk in self.conc:
                d = dict(self.conc)
                del d[hk]
                return GoMap(self.sym, d)
            return self
        raise Unsupported("delete with symbolic key")

    def merge_with(self, eng, g, other, tid=None):
        et = eng.ir.under(tid)["elem"] if tid is not None and eng.ir.under(tid)["k"] == "map" else None
        if not isinstance(other, GoMap):
            raise MergeFail("map vs other")
        if self.sym or other.sym or list(self.conc.keys()) != list(other.conc.keys()):
            raise MergeFail("maps differ in keys")
        d = {}
        for hk, (k, v) in self.conc.items():
            v2 = other.conc[hk][1]
            d[hk] = (k, v if v is v2 else eng.merge_val(g, v, v2, et))
        return GoMap((), d)


class GoChan:
    __slots__ = ("items", "cap", "closed")

    def __init__(self, items, cap, closed):
        self.items = items
        self.cap = cap
        self.closed = closed

    def __eq__(self, o):
        return isinstance(o, GoChan) and self.items == o.items and self.cap == o.cap and self.closed == o.closed

    def __hash__(self):
        return hash((len(self.items), self.cap, self.closed))
