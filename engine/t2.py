import sys, time, json, os
sys.path.insert(0, '/verif/engine')
from ir import IR
from symex import Engine
import intrinsics, models
sys.path.insert(0,'/verif')
import run as R
t0=time.time()
ir = IR(sys.argv[1])
eng = Engine(ir, unwind=70, solver_timeout_ms=int(os.environ.get("ST","15000")))
intrinsics.install(eng); models.install(eng)
eng.params = json.loads(sys.argv[3]) if len(sys.argv)>3 else {}
eng.arith = os.environ.get('ARITH','bv')
eng.deadline = time.time()+float(sys.argv[4]) if len(sys.argv)>4 else None
st = eng.initial_state()
pk = sys.argv[2].rsplit(".",1)[0]
st = eng.run_init(st, R.init_order(ir, pk))
print("init", time.time()-t0, st.world.get("init_failed"))
eng.run_function(sys.argv[2], (), st)
print("time", time.time()-t0)
from collections import Counter
print(Counter(k for k,_,_ in eng.results))
for k,i,_ in eng.results[:12]:
    if k not in ("returned","assume_false"): print(k,i)
print(eng.stats)
print(eng.fn_stats)
c=Counter((a['name'],a['verdict']) for a in eng.asserts)
for a,v in c.items(): print(a,v)
for a in eng.asserts:
    if a['verdict']=='violated': print(a['name'], a.get('model')); break
print(eng.reached, eng.solver.nq, eng.solver.t)
