"""IR loader: JSON produced by /verif/ssadump -> Python structures + type helpers + post-dominators."""
import json


class IR:
    def __init__(self, path):
        with open(path) as f:
            d = json.load(f)
        self.src_hash = d["src_hash"]
        self.types = d["types"]
        self.funcs = d["funcs"]
        self.globals = d["globals"]
        self.methods = d["methods"]
        self.embeds = d["embeds"]
        self.packages = d["packages"]
        self._under = {}
        self._ipdom = {}
        self._zero = {}
        self._regtypes = {}
        for fn in self.funcs.values():
            if fn.get("external"):
                continue
            for b in fn["blocks"]:
                ins = b["instrs"]
                k = 0
                while k < len(ins) and ins[k]["op"] == "Phi":
                    k += 1
                b["nphi"] = k

    # ---- types
    def T(self, tid):
        return self.types[tid]

    def canon(self, tid):
        """resolve alias chains (type A = B)"""
        t = self.types.get(tid)
        while t is not None and t["k"] == "named" and t.get("alias"):
            tid = t["under"]
            t = self.types.get(tid)
        return tid

    def under(self, tid):
        u = self._under.get(tid)
        if u is None:
            t = self.types[tid]
            while t["k"] == "named":
                t = self.types[t["under"]]
            u = t
            self._under[tid] = u
        return u

    def kind(self, tid):
        return self.under(tid)["k"]

    def intinfo(self, tid):
        u = self.under(tid)
        if u["k"] == "basic" and u["cls"] == "int":
            return u["bits"], u["signed"]
        return None

    def regtypes(self, fn):
        name = fn["name"]
        rt = self._regtypes.get(name)
        if rt is None:
            rt = {}
            for i, p in enumerate(fn["params"]):
                rt["p:%d" % i] = p["t"]
            for i, p in enumerate(fn["freevars"]):
                rt["fv:%d" % i] = p["t"]
            for b in fn["blocks"]:
                for ins in b["instrs"]:
                    if "r" in ins:
                        rt[ins["r"]] = ins["t"]
            self._regtypes[name] = rt
        return rt

    # ---- post-dominators (immediate), per function; virtual exit = -1
    def ipdom(self, fn):
        """immediate post-dominators; where a block has none because some path returns/panics early, the post-dominator
        of the remaining (non-terminating) paths is used instead ("weak" join: early exits leave the region)."""
        name = fn["name"]
        r = self._ipdom.get(name)
        if r is not None:
            return r
        strong = self._ipdom_of(fn, False)
        weak = self._ipdom_of(fn, True)
        r = [s if s >= 0 else w for s, w in zip(strong, weak)]
        self._ipdom[name] = r
        return r

    def _weak_joins(self, fn):
        """for every 2-way branch block B: the nearest block J such that every path leaving B either passes through J or
        ends in a Return/Panic block first (the part of the CFG reachable from B without J is acyclic)."""
        blocks = fn["blocks"]
        n = len(blocks)
        succs = [b["succs"] for b in blocks]
        res = [-1] * n
        for B in range(n):
            if len(succs[B]) != 2:
                continue
            # BFS order of candidates
            order, seen, q = [], {B}, list(succs[B])
            for x in q:
                seen.add(x)
            qi = 0
            while qi < len(q):
                x = q[qi]
                qi += 1
                order.append(x)
                for y in succs[x]:
                    if y not in seen:
                        seen.add(y)
                        q.append(y)
            order.append(B)

            def reach(a):
                r, stack = {a}, [a]
                while stack:
                    u = stack.pop()
                    for v in succs[u]:
                        if v not in r:
                            r.add(v)
                            stack.append(v)
                return r
            r0, r1 = reach(succs[B][0]), reach(succs[B][1])
            for J in order:
                if not succs[J] and J != B:
                    continue  # terminal blocks are never joins
                if J not in r0 or J not in r1:
                    continue  # must be a meeting point of both arms
                # acyclic check of region reachable from succs[B] avoiding J
                color = {}
                ok = True
                reach_other = False

                def dfs(u):
                    nonlocal ok
                    if u == J:
                        return
                    c = color.get(u)
                    if c == 1:
                        ok = False
                        return
                    if c == 2:
                        return
                    color[u] = 1
                    for v in succs[u]:
                        if v == B and J != B:
                            ok = False
                            return
                        dfs(v)
                        if not ok:
                            return
                    color[u] = 2
                for s0 in succs[B]:
                    dfs(s0)
                    if not ok:
                        break
                if ok:
                    res[B] = J
                    break
        return res

    def _ipdom_of(self, fn, weak):
        if weak:
            return self._weak_joins(fn)
        blocks = fn["blocks"]
        n = len(blocks)
        EXIT = n
        succs = [list(b["succs"]) for b in blocks]
        for i, b in enumerate(blocks):
            if not succs[i]:
                succs[i] = [EXIT]
        succs.append([])
        full = set(range(n + 1))
        pdom = [set(full) for _ in range(n + 1)]
        pdom[EXIT] = {EXIT}
        changed = True
        while changed:
            changed = False
            for i in range(n - 1, -1, -1):
                s = None
                for x in succs[i]:
                    s = set(pdom[x]) if s is None else (s & pdom[x])
                s = (s or set()) | {i}
                if s != pdom[i]:
                    pdom[i] = s
                    changed = True
        res = []
        for i in range(n):
            cands = pdom[i] - {i}
            # immediate = the candidate that is post-dominated by all other candidates
            ip = None
            for c in cands:
                if all((o in pdom[c]) for o in cands):
                    ip = c
                    break
            res.append(-1 if ip is None or ip == EXIT else ip)
        return res
