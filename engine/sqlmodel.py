"""Symbolic relational model of the node's SQLite stores (DESIGN.md section 4, "SQL store").

database/sql, russross/meddler and rubenv/sql-migrate are intercepted; the SQL text the real code passes is parsed
at run time.  Tables have a concrete set of rows with (possibly) symbolic cell values; `*rht` tables (content-addressed
Merkle nodes) are z3 arrays ("abstract mode").  Conditions over symbolic cells fork the path (decide()).
"""
import re

import z3

from symex import (Closure, Fork, GoPanic, Iface, MapRef, Opaque, PathEnd, Ptr, Slice, SymStr, Unsupported, NIL_SLICE,
                   is_sym, is_arith, toarith, tobv, simp, b_and, b_not, b_or, norm, st_oid)
import intrinsics
from intrinsics import REG, intr, BigNat, big_get, big_new, new_error, ret_fork

SQLITE_ERR_T = "github.com/mattn/go-sqlite3.Error"
CONSTRAINT_PK = 1555
CONSTRAINT_UNIQUE = 2067
CONSTRAINT_FK = 787
CONSTRAINT_NOTNULL = 1299
CONSTRAINT_CHECK = 275
CONSTRAINT_TRIGGER = 1811


# ------------------------------------------------------------------------------------------- values
class BytesVal:
    """kind: 'hex' (TEXT holding 0x-hex of bs) or 'blob'"""
    __slots__ = ("bs", "kind")

    def __init__(self, bs, kind):
        self.bs = tuple(bs)
        self.kind = kind

    def __repr__(self):
        return "BytesVal(%s,%d)" % (self.kind, len(self.bs))

    def __eq__(self, o):
        return isinstance(o, BytesVal) and self.kind == o.kind and len(self.bs) == len(o.bs) and \
            all((a is b) or (type(a) is int and type(b) is int and a == b) for a, b in zip(self.bs, o.bs))

    def __hash__(self):
        return hash((self.kind, len(self.bs)))


class DecVal:
    """TEXT holding the decimal representation of a non-negative integer (big.Int codec)"""
    __slots__ = ("v",)

    def __init__(self, v):
        self.v = v


class ProofVal:
    __slots__ = ("hs",)

    def __init__(self, hs):
        self.hs = hs


class JsonVal:
    """a BLOB holding the JSON text of a Go value: kept as a deep snapshot of the value (the text itself is never inspected)"""
    __slots__ = ("tid", "snap")

    def __init__(self, tid, snap):
        self.tid, self.snap = tid, snap


def json_snap(eng, st, v, tid):
    """deep snapshot of a Go value (pointers and slices followed), as encoding/json would serialise it"""
    u = eng.ir.under(tid)
    k = u["k"]
    if k == "ptr":
        if v is None:
            return None
        return ("ptr", json_snap(eng, st, eng.load(st, v), u["elem"]))
    if k == "struct":
        return ("struct", tuple(json_snap(eng, st, x, f["t"]) for x, f in zip(v, u["fields"])))
    if k == "slice":
        if v is None or v is NIL_SLICE:
            return None
        return ("slice", tuple(json_snap(eng, st, x, u["elem"]) for x in eng.slice_elems(st, v)))
    if k == "array":
        return ("array", tuple(json_snap(eng, st, x, u["elem"]) for x in v))
    if k == "map":
        if v is None:
            return None
        gm = st.heap[v.obj]
        if gm.length() == 0:
            return ("emptymap",)
        raise Unsupported("JSON of a non-empty map")
    if k in ("basic",):
        return ("val", v)
    raise Unsupported("JSON of %s" % tid)


def json_restore(eng, st, sn, tid):
    u = eng.ir.under(tid)
    k = u["k"]
    if sn is None:
        return eng.zero(tid)
    tag = sn[0]
    if tag == "ptr":
        return eng.alloc_val(st, u["elem"], json_restore(eng, st, sn[1], u["elem"]))
    if tag == "struct":
        return tuple(json_restore(eng, st, x, f["t"]) for x, f in zip(sn[1], u["fields"]))
    if tag == "slice":
        return eng.new_slice(st, u["elem"], tuple(json_restore(eng, st, x, u["elem"]) for x in sn[1]))
    if tag == "array":
        return tuple(json_restore(eng, st, x, u["elem"]) for x in sn[1])
    if tag == "emptymap":
        return eng.zero(tid)
    return sn[1]


class CondSqlErr(Exception):
    """the statement fails with `err` iff cond; `tabs` is the table map afterwards in both cases"""

    def __init__(self, cond, err, tabs):
        self.cond, self.err, self.tabs = cond, err, tabs


class SqlErr(Exception):
    def __init__(self, code, ext, msg):
        self.code, self.ext, self.msg = code, ext, msg


def decide(eng, st, c):
    """turn a possibly symbolic condition into a Python bool, forking the path when both outcomes are feasible.
    The instruction is re-executed on each side with the condition in the path condition."""
    if c is True or c is False:
        return c
    c = simp(c)
    if c is True or c is False:
        return c
    if eng.must(st, c):
        return True
    nc = b_not(c)
    if eng.must(st, nc):
        return False
    raise Fork([(c, lambda s: None), (nc, lambda s: None)])


def sql_int(eng, v, bits=64, signed=False):
    """Go integer -> SQL INTEGER (64-bit)"""
    if isinstance(v, bool):
        return 1 if v else 0
    if isinstance(v, z3.BoolRef):
        return z3.If(v, z3.BitVecVal(1, 64), z3.BitVecVal(0, 64)) if eng.arith != "int" else z3.If(v, z3.IntVal(1), z3.IntVal(0))
    if not is_sym(v) or is_arith(v):
        return v
    if bits < 64:
        return z3.SignExt(64 - bits, v) if signed else z3.ZeroExt(64 - bits, v)
    return v


def val_eq(eng, a, b):
    """SQL '=' on canonical values -> bool / z3 Bool (NULL = anything -> False)"""
    if a is None or b is None:
        return False
    if isinstance(a, BytesVal) or isinstance(b, BytesVal):
        if not (isinstance(a, BytesVal) and isinstance(b, BytesVal)):
            if isinstance(a, str) or isinstance(b, str):
                s, bv = (a, b) if isinstance(a, str) else (b, a)
                other = canon_str(s)
                if isinstance(other, BytesVal):
                    return val_eq(eng, other, bv)
                return False
            return False
        if a.kind != b.kind or len(a.bs) != len(b.bs):
            return False
        return eng.bytes_eq_inj(a.bs, b.bs) if len(a.bs) else True
    if isinstance(a, DecVal) or isinstance(b, DecVal):
        if not (isinstance(a, DecVal) and isinstance(b, DecVal)):
            return False
        if not is_sym(a.v) and not is_sym(b.v):
            return a.v == b.v
        return simp(tobv(a.v, 256) == tobv(b.v, 256))
    if isinstance(a, str) or isinstance(b, str):
        if isinstance(a, str) and isinstance(b, str):
            return a == b
        if isinstance(a, SymStr) or isinstance(b, SymStr):
            raise Unsupported("SQL comparison of opaque strings")
        return False
    if isinstance(a, SymStr) or isinstance(b, SymStr):
        if a is b:
            return True
        raise Unsupported("SQL comparison of opaque strings")
    return int_cmp(eng, "=", a, b)


def int_cmp(eng, op, a, b):
    if not is_sym(a) and not is_sym(b):
        return {"=": a == b, "<": a < b, "<=": a <= b, ">": a > b, ">=": a >= b, "!=": a != b}[op]
    if is_arith(a) or is_arith(b):
        x, y = toarith(a), toarith(b)
    else:
        x, y = tobv(a, 64), tobv(b, 64)
    r = {"=": x == y, "<": x < y, "<=": x <= y, ">": x > y, ">=": x >= y, "!=": x != y}[op]
    return simp(r)


def val_cmp(eng, op, a, b):
    if op == "=":
        return val_eq(eng, a, b)
    if op in ("!=", "<>"):
        if a is None or b is None:
            return False
        return b_not(val_eq(eng, a, b))
    if a is None or b is None:
        return False
    if isinstance(a, (BytesVal, DecVal, str, SymStr)) or isinstance(b, (BytesVal, DecVal, str, SymStr)):
        raise Unsupported("SQL ordering comparison on non-integers")
    return int_cmp(eng, op, a, b)


HEXRE = re.compile(r"^0[xX]([0-9a-fA-F]{2})*$")


def canon_str(s):
    if isinstance(s, SymStr):
        if s.kind == "hex":
            return BytesVal(s.val, "hex")
        if s.kind == "dec":
            return DecVal(s.val)
        return s
    if HEXRE.match(s) and len(s) > 2:
        return BytesVal(tuple(bytes.fromhex(s[2:])), "hex")
    return s


# ------------------------------------------------------------------------------------------- SQL parsing
TOK = re.compile(r"""\s*(?:(--[^\n]*)|(/\*.*?\*/)|('(?:[^']|'')*')|("(?:[^"])*")|(\$\d+|\?)|(\d+)|([A-Za-z_][A-Za-z_0-9]*)|(<=|>=|!=|<>|[(),;*=<>.]))""", re.S)


def tokenize(sql):
    out = []
    pos = 0
    n = len(sql)
    while pos < n:
        m = TOK.match(sql, pos)
        if not m:
            if sql[pos:].strip() == "":
                break
            raise Unsupported("SQL tokenizer at %r" % sql[pos:pos + 30])
        pos = m.end()
        if m.group(1) or m.group(2):
            continue
        if m.group(3) is not None:
            out.append(("str", m.group(3)[1:-1].replace("''", "'")))
        elif m.group(4) is not None:
            out.append(("qid", m.group(4)[1:-1]))
        elif m.group(5) is not None:
            out.append(("ph", m.group(5)))
        elif m.group(6) is not None:
            out.append(("num", int(m.group(6))))
        elif m.group(7) is not None:
            out.append(("id", m.group(7)))
        else:
            out.append(("sym", m.group(8)))
    return out


class P:
    def __init__(self, toks):
        self.t = toks
        self.i = 0
        self.nph = 0

    def peek(self, k=0):
        return self.t[self.i + k] if self.i + k < len(self.t) else ("eof", None)

    def kw(self, *words):
        """match keywords (case-insensitive)"""
        for k, w in enumerate(words):
            t = self.peek(k)
            if t[0] != "id" or t[1].upper() != w:
                return False
        self.i += len(words)
        return True

    def sym(self, s):
        t = self.peek()
        if t[0] == "sym" and t[1] == s:
            self.i += 1
            return True
        return False

    def need_sym(self, s):
        if not self.sym(s):
            raise Unsupported("SQL: expected %r at %r" % (s, self.t[self.i:self.i + 4]))

    def ident(self):
        t = self.peek()
        if t[0] in ("id", "qid"):
            self.i += 1
            return t[1]
        raise Unsupported("SQL: expected identifier at %r" % (self.t[self.i:self.i + 4],))

    def operand(self):
        t = self.peek()
        if t[0] == "ph":
            self.i += 1
            if t[1] == "?":
                self.nph += 1
                return ("ph", self.nph)
            return ("ph", int(t[1][1:]))
        if t[0] == "num":
            self.i += 1
            return ("lit", t[1])
        if t[0] == "str":
            self.i += 1
            return ("lit", t[1])
        if t[0] == "qid":  # "" used as string literal by sqlite when no such column
            self.i += 1
            return ("lit", t[1])
        if t[0] == "id":
            if t[1].upper() == "NULL":
                self.i += 1
                return ("lit", None)
            if t[1].upper() == "EXCLUDED" and self.peek(1) == ("sym", "."):
                self.i += 2
                return ("excluded", self.ident())
            self.i += 1
            return ("col", t[1])
        raise Unsupported("SQL: operand at %r" % (self.t[self.i:self.i + 4],))

    def where(self):
        """returns list of conjuncts: (col, op, operand) | (col,'in',[operands]) | (col,'isnull'/'notnull') | ('like', ...)"""
        conds = []
        while True:
            if self.kw("UPPER"):
                self.need_sym("(")
                col = self.ident()
                self.need_sym(")")
                if not self.kw("LIKE"):
                    raise Unsupported("SQL: UPPER(...) without LIKE")
                conds.append((col, "upper_like", self.operand()))
            else:
                col = self.ident()
                if self.kw("IS", "NOT", "NULL"):
                    conds.append((col, "notnull", None))
                elif self.kw("IS", "NULL"):
                    conds.append((col, "isnull", None))
                elif self.kw("IN"):
                    self.need_sym("(")
                    ops = [self.operand()]
                    while self.sym(","):
                        ops.append(self.operand())
                    self.need_sym(")")
                    conds.append((col, "in", ops))
                elif self.kw("LIKE"):
                    conds.append((col, "like", self.operand()))
                else:
                    t = self.peek()
                    if t[0] != "sym" or t[1] not in ("=", "!=", "<>", "<", "<=", ">", ">="):
                        raise Unsupported("SQL: operator at %r" % (self.t[self.i:self.i + 4],))
                    self.i += 1
                    conds.append((col, t[1], self.operand()))
            if not self.kw("AND"):
                break
        return conds


_parse_cache = {}


def parse_sql(sql):
    r = _parse_cache.get(sql)
    if r is None:
        r = [_parse_stmt(s) for s in split_statements(tokenize(sql))]
        _parse_cache[sql] = r
    return r


def split_statements(toks):
    out, cur = [], []
    for t in toks:
        if t == ("sym", ";"):
            if cur:
                out.append(cur)
            cur = []
        else:
            cur.append(t)
    if cur:
        out.append(cur)
    return out


def _parse_coldef(p, name):
    col = {"name": name, "aff": "text", "notnull": False, "default": None, "pk": False, "unique": False, "ref": None, "check": None}
    # type name (possibly with size)
    t = p.peek()
    if t[0] == "id" and t[1].upper() not in ("NOT", "PRIMARY", "UNIQUE", "REFERENCES", "DEFAULT", "CHECK", "NULL"):
        ty = p.ident().upper()
        if p.sym("("):
            while not p.sym(")"):
                p.i += 1
        if any(x in ty for x in ("INT", "BOOL")):
            col["aff"] = "int"
        elif "BLOB" in ty:
            col["aff"] = "blob"
        else:
            col["aff"] = "text"
    while True:
        if p.kw("NOT", "NULL"):
            col["notnull"] = True
        elif p.kw("NULL"):
            pass
        elif p.kw("PRIMARY", "KEY"):
            col["pk"] = True
            p.kw("AUTOINCREMENT")
        elif p.kw("UNIQUE"):
            col["unique"] = True
        elif p.kw("DEFAULT"):
            col["default"] = p.operand()[1]
        elif p.kw("CHECK"):
            p.need_sym("(")
            c = p.ident()
            p.need_sym("=")
            v = p.operand()
            p.need_sym(")")
            col["check"] = (c, v[1])
        elif p.kw("REFERENCES"):
            rt = p.ident()
            p.need_sym("(")
            rc = p.ident()
            p.need_sym(")")
            cascade = False
            while p.kw("ON"):
                if p.kw("DELETE", "CASCADE"):
                    cascade = True
                else:
                    raise Unsupported("SQL: ON clause")
            col["ref"] = (rt, rc, cascade)
        else:
            break
    return col


def _parse_stmt(toks):
    p = P(toks)
    if p.kw("CREATE", "TABLE"):
        ine = p.kw("IF", "NOT", "EXISTS")
        name = p.ident()
        p.need_sym("(")
        cols, pk, uniques = [], (), []
        while True:
            if p.kw("PRIMARY", "KEY"):
                p.need_sym("(")
                ks = [p.ident()]
                while p.sym(","):
                    ks.append(p.ident())
                p.need_sym(")")
                pk = tuple(ks)
            elif p.kw("UNIQUE"):
                p.need_sym("(")
                ks = [p.ident()]
                while p.sym(","):
                    ks.append(p.ident())
                p.need_sym(")")
                uniques.append(tuple(ks))
            else:
                cols.append(_parse_coldef(p, p.ident()))
            if p.sym(","):
                continue
            p.need_sym(")")
            break
        return ("create_table", name, cols, pk, uniques, ine)
    if p.kw("ALTER", "TABLE"):
        name = p.ident()
        if not p.kw("ADD", "COLUMN"):
            raise Unsupported("SQL: ALTER TABLE form")
        return ("add_column", name, _parse_coldef(p, p.ident()))
    if p.kw("CREATE", "INDEX") or p.kw("CREATE", "UNIQUE", "INDEX") or p.kw("DROP"):
        return ("noop",)
    if p.kw("SELECT"):
        cols = None
        count = False
        if p.sym("*"):
            cols = "*"
        elif p.kw("COUNT"):
            p.need_sym("(")
            p.need_sym("*")
            p.need_sym(")")
            if p.kw("AS"):
                p.ident()
            count = True
        else:
            cols = [p.ident()]
            while p.sym(","):
                cols.append(p.ident())
        if not p.kw("FROM"):
            raise Unsupported("SQL: FROM expected")
        table = p.ident()
        where = p.where() if p.kw("WHERE") else []
        order = []
        if p.kw("ORDER", "BY"):
            while True:
                c = p.ident()
                d = "ASC"
                if p.kw("DESC"):
                    d = "DESC"
                else:
                    p.kw("ASC")
                order.append((c, d))
                if not p.sym(","):
                    break
        limit = offset = None
        if p.kw("LIMIT"):
            limit = p.operand()
            if p.kw("OFFSET"):
                offset = p.operand()
        if p.peek()[0] != "eof":
            raise Unsupported("SQL: trailing tokens in SELECT %r" % (p.t[p.i:],))
        return ("select", table, cols, count, where, order, limit, offset)
    if p.kw("INSERT", "INTO"):
        table = p.ident()
        if p.kw("SELECT"):
            p.need_sym("*")
            if not p.kw("FROM"):
                raise Unsupported("SQL: INSERT..SELECT form")
            src = p.ident()
            where = p.where() if p.kw("WHERE") else []
            return ("insert_select", table, src, where)
        p.need_sym("(")
        cols = [p.ident()]
        while p.sym(","):
            cols.append(p.ident())
        p.need_sym(")")
        if not p.kw("VALUES"):
            raise Unsupported("SQL: VALUES expected")
        p.need_sym("(")
        vals = [p.operand()]
        while p.sym(","):
            vals.append(p.operand())
        p.need_sym(")")
        upsert = None
        if p.kw("ON", "CONFLICT"):
            p.need_sym("(")
            ck = [p.ident()]
            while p.sym(","):
                ck.append(p.ident())
            p.need_sym(")")
            if not p.kw("DO", "UPDATE", "SET"):
                raise Unsupported("SQL: ON CONFLICT form")
            sets = []
            while True:
                c = p.ident()
                p.need_sym("=")
                sets.append((c, p.operand()))
                if not p.sym(","):
                    break
            upsert = (tuple(ck), sets)
        return ("insert", table, cols, vals, upsert)
    if p.kw("UPDATE"):
        table = p.ident()
        if not p.kw("SET"):
            raise Unsupported("SQL: SET expected")
        sets = []
        while True:
            c = p.ident()
            p.need_sym("=")
            sets.append((c, p.operand()))
            if not p.sym(","):
                break
        where = p.where() if p.kw("WHERE") else []
        return ("update", table, sets, where)
    if p.kw("DELETE", "FROM"):
        table = p.ident()
        where = p.where() if p.kw("WHERE") else []
        return ("delete", table, where)
    raise Unsupported("SQL statement %r" % (toks[:6],))


# ------------------------------------------------------------------------------------------- tables / db state
class Table:
    __slots__ = ("name", "cols", "pk", "uniques", "rows", "abstract", "ninserts")

    def __init__(self, name, cols, pk, uniques, rows=(), abstract=None, ninserts=0):
        self.name, self.cols, self.pk, self.uniques, self.rows, self.abstract, self.ninserts = name, cols, pk, uniques, rows, abstract, ninserts

    def with_rows(self, rows, ninserts=None):
        return Table(self.name, self.cols, self.pk, self.uniques, tuple(rows), self.abstract, self.ninserts if ninserts is None else ninserts)

    def col(self, name):
        for c in self.cols:
            if c["name"].lower() == name.lower():
                return c
        return None


class DBState:
    __slots__ = ("path", "fk", "committed", "working", "txid", "migrations", "faults", "nextid")

    def __init__(self, path, fk):
        self.path, self.fk = path, fk
        self.committed = {}
        self.working = None
        self.txid = None
        self.migrations = ()
        self.faults = ()  # ((table, op, n), ...)
        self.nextid = 1

    def clone(self):
        d = DBState(self.path, self.fk)
        d.committed, d.working, d.txid, d.migrations, d.faults, d.nextid = self.committed, self.working, self.txid, self.migrations, self.faults, self.nextid
        return d


def is_abstract_table(name):
    return name.endswith("rht")


def dbkey(path):
    return "db:" + path


def get_db(st, path):
    d = st.world.get(dbkey(path))
    if d is None:
        raise Unsupported("database %s is not open" % path)
    return d


def tables_for(d, txid):
    """the table map visible to a statement issued through tx `txid` (None = directly on the *sql.DB)"""
    if txid is not None:
        if d.txid != txid:
            raise SqlErr(-1, -1, "sql: transaction has already been committed or rolled back")
        return d.working
    return d.committed


def find_table(tabs, name):
    t = tabs.get(name.lower())
    if t is None:
        raise SqlErr(1, 1, "no such table: %s" % name)
    return t


def put_tables(st, d, txid, tabs):
    d2 = d.clone()
    if txid is not None:
        d2.working = tabs
    else:
        if d.txid is not None:
            raise Unsupported("write outside the open transaction (would block on the SQLite lock)")
        d2.committed = tabs
    st.world[dbkey(d.path)] = d2
    return d2


# ------------------------------------------------------------------------------------------- statement execution
def operand_val(eng, op, args, row=None, excluded=None):
    k = op[0]
    if k == "ph":
        i = op[1] - 1
        if i >= len(args):
            raise SqlErr(1, 1, "missing argument $%d" % op[1])
        return args[i]
    if k == "lit":
        v = op[1]
        return canon_str(v) if isinstance(v, str) else v
    if k == "col":
        return row[op[1].lower()]
    if k == "excluded":
        return excluded[op[1].lower()]
    raise Unsupported("SQL operand %r" % (op,))


def row_matches(eng, st, t, row, where, args):
    for col, op, rhs in where:
        cname = col.lower()
        if t.col(cname) is None:
            raise SqlErr(1, 1, "no such column: %s" % col)
        v = row.get(cname)
        if op == "isnull":
            ok = v is None
        elif op == "notnull":
            ok = v is not None
        elif op == "in":
            ok = False
            for o in rhs:
                ok = b_or(ok, val_eq(eng, v, operand_val(eng, o, args, row)))
        elif op in ("like", "upper_like"):
            raise Unsupported("SQL LIKE is not modelled")
        else:
            ok = val_cmp(eng, op, v, operand_val(eng, rhs, args, row))
        if not decide(eng, st, ok):
            return False
    return True


def sort_rows(eng, st, rows, order):
    if not order:
        return list(rows)
    rows = list(rows)
    # insertion sort with decide() on every comparison (keys are usually concrete)
    def less(a, b):
        for col, d in order:
            x, y = a.get(col.lower()), b.get(col.lower())
            if x is None or y is None:
                if x is None and y is None:
                    continue
                return (x is None) == (d == "ASC")
            if isinstance(x, (BytesVal, str, DecVal)):
                if val_eq(eng, x, y) is True:
                    continue
                raise Unsupported("ORDER BY on a non-integer column with distinct values")
            if decide(eng, st, int_cmp(eng, "=", x, y)):
                continue
            lt = decide(eng, st, int_cmp(eng, "<", x, y))
            return lt if d == "ASC" else not lt
        return None  # tie
    out = []
    for r in rows:
        pos = len(out)
        for k, o in enumerate(out):
            l = less(r, o)
            if l is None:
                # SQLite's order among ties is unspecified: the model keeps insertion order and records the tie
                st.world["sql_order_ties"] = st.world.get("sql_order_ties", 0) + 1
                continue
            if l:
                pos = k
                break
        out.insert(pos, r)
    return out


def check_fault(eng, st, d, t, op):
    for (ft, fop, n) in d.faults:
        if ft == t.name and fop == op and (n is None or t.ninserts == n):
            raise SqlErr(19, CONSTRAINT_TRIGGER, "zzverif injected fault on %s %s #%s" % (op, t.name, n))


def coerce(col, v):
    """apply column affinity to a value being stored"""
    if v is None:
        return None
    if col["aff"] == "int":
        if isinstance(v, str) and v.isdigit():
            return int(v)
        if isinstance(v, DecVal):
            return v.v if not is_sym(v.v) else v  # stays text-like if symbolic big; compared only to equal forms
    return v


def do_insert(eng, st, d, txid, tabs, t, newrow):
    """returns new tabs; raises SqlErr"""
    check_fault(eng, st, d, t, "insert")
    row = {}
    for c in t.cols:
        n = c["name"].lower()
        if n in newrow:
            row[n] = coerce(c, newrow[n])
        else:
            dv = c["default"]
            row[n] = canon_str(dv) if isinstance(dv, str) else dv
    for n in newrow:
        if t.col(n) is None:
            raise SqlErr(1, 1, "table %s has no column named %s" % (t.name, n))
    for c in t.cols:
        n = c["name"].lower()
        if row[n] is None and (c["notnull"] or (n in [k.lower() for k in t.pk] and len(t.pk) > 1 and False)):
            raise SqlErr(19, CONSTRAINT_NOTNULL, "NOT NULL constraint failed: %s.%s" % (t.name, n))
        if c["check"] is not None and row[n] is not None:
            if not decide(eng, st, val_eq(eng, row[n], c["check"][1])):
                raise SqlErr(19, CONSTRAINT_CHECK, "CHECK constraint failed: %s" % n)
    if t.abstract is not None:
        return abstract_insert(eng, st, d, tabs, t, row)
    # rowid alias: single INTEGER PRIMARY KEY that is NULL gets max+1
    if len(t.pk) == 1 and t.col(t.pk[0])["aff"] == "int" and row[t.pk[0].lower()] is None:
        row[t.pk[0].lower()] = t.ninserts + 1
    # uniqueness
    keys = ([("pk", t.pk)] if t.pk else []) + [("unique", u) for u in t.uniques]
    for kind, key in keys:
        for r in t.rows:
            eq = True
            for kc in key:
                a, b = row[kc.lower()], r[kc.lower()]
                if a is None or b is None:
                    eq = False
                    break
                eq = b_and(eq, val_eq(eng, a, b))
                if eq is False:
                    break
            if decide(eng, st, eq):
                raise SqlErr(19, CONSTRAINT_PK if kind == "pk" else CONSTRAINT_UNIQUE,
                             "UNIQUE constraint failed: %s.%s" % (t.name, ",".join(key)))
    # foreign keys
    if d.fk:
        for c in t.cols:
            if c["ref"] is not None and row[c["name"].lower()] is not None:
                rt = find_table(tabs, c["ref"][0])
                found = False
                for r in rt.rows:
                    if decide(eng, st, val_eq(eng, r[c["ref"][1].lower()], row[c["name"].lower()])):
                        found = True
                        break
                if not found:
                    raise SqlErr(19, CONSTRAINT_FK, "FOREIGN KEY constraint failed")
    tabs = dict(tabs)
    tabs[t.name] = t.with_rows(t.rows + (row,), t.ninserts + 1)
    return tabs


def _key_term(eng, v, what):
    if isinstance(v, str):
        v = canon_str(v)
    if not isinstance(v, BytesVal) or len(v.bs) != 32:
        return None
    return eng.pack(v.bs)


def _abs_match(eng, k, ki):
    """syntactic fast path, else equality under the collision-freeness assumption (or a plain z3 equality)"""
    if k.get_id() == ki.get_id():
        return True
    if z3.is_bv_value(k) and z3.is_bv_value(ki):
        return k.as_long() == ki.as_long()
    if eng.keccak_injective:
        return eng.heq(k, ki)
    return simp(k == ki)


def abstract_presence(eng, t, k):
    """(present condition, [(match cond, rowdict)] in priority order, truncated at the first definite match)"""
    chain = []
    pres = False
    kid = k.get_id()
    for ki, row in t.abstract:
        if ki.get_id() == kid:
            # the very term that was stored: under collision-freeness of Keccak (stated assumption) an older entry with
            # an equal key holds the same children, so this entry answers the look-up
            eng.stats["rht_identical_key_hits"] = eng.stats.get("rht_identical_key_hits", 0) + 1
            return True, [(True, row)]
    for ki, row in t.abstract:
        m = _abs_match(eng, k, ki)
        if m is False:
            continue
        chain.append((m, row))
        if m is True:
            pres = True
            break
        pres = b_or(pres, m)
    return pres, chain


def abstract_insert(eng, st, d, tabs, t, row):
    """content-addressed table (rht): entries are (key term, {col: term}); an insert whose key is already present fails with
    a PK violation; when presence is symbolic the statement's error is conditional (CondSqlErr) and the entry is appended
    (look-ups give priority to older entries, which is what 'insert ignored' means)."""
    k = _key_term(eng, row[t.pk[0].lower()], "key")
    if k is None:
        raise Unsupported("abstract table key must be a 32-byte hash")
    pres, _ = abstract_presence(eng, t, k)
    if pres is True:
        raise SqlErr(19, CONSTRAINT_PK, "UNIQUE constraint failed: %s.hash" % t.name)
    vals = {}
    for c in t.cols:
        cn = c["name"].lower()
        if cn == t.pk[0].lower():
            continue
        v = _key_term(eng, row[cn], cn)
        if v is None:
            raise Unsupported("abstract table value must be a 32-byte hash")
        vals[cn] = v
    nt = Table(t.name, t.cols, t.pk, t.uniques, (), t.abstract + ((k, vals),), t.ninserts + 1)
    tabs = dict(tabs)
    tabs[t.name] = nt
    if pres is not False:
        raise CondSqlErr(pres, SqlErr(19, CONSTRAINT_PK, "UNIQUE constraint failed: %s.hash" % t.name), tabs)
    return tabs


def abstract_select(eng, st, t, where, args):
    if len(where) != 1 or where[0][0].lower() != t.pk[0].lower() or where[0][1] != "=":
        raise Unsupported("abstract table supports only look-ups by key")
    key = operand_val(eng, where[0][2], args)
    k = _key_term(eng, key, "key")
    if k is None:
        return []
    pres, chain = abstract_presence(eng, t, k)
    if pres is False:
        return []
    row = {t.pk[0].lower(): BytesVal(eng.unpack(k, 32), "hex")}
    cols = [c["name"].lower() for c in t.cols if c["name"].lower() != t.pk[0].lower()]
    for cn in cols:
        term = chain[-1][1][cn]
        for m, r in reversed(chain[:-1]):
            term = z3.If(m, r[cn], term)
        row[cn] = BytesVal(eng.unpack(term, 32), "hex")
    if pres is not True:
        row["__present__"] = pres
    return [row]


def delete_rows(eng, st, d, tabs, t, pred):
    """delete rows of t satisfying pred (python callable row->bool); cascades; returns (tabs, n_deleted_directly)"""
    if t.abstract is not None:
        raise Unsupported("DELETE on abstract table")
    keep, gone = [], []
    for r in t.rows:
        (gone if pred(r) else keep).append(r)
    if not gone:
        return tabs, 0
    check_fault(eng, st, d, t, "delete")  # a BEFORE DELETE trigger fires per deleted row
    tabs = dict(tabs)
    tabs[t.name] = t.with_rows(keep)
    if d.fk:
        for ot in list(tabs.values()):
            if ot.abstract is not None:
                continue
            for c in ot.cols:
                if c["ref"] is not None and c["ref"][0].lower() == t.name:
                    rc = c["ref"][1].lower()
                    cn = c["name"].lower()

                    def refpred(r, cn=cn, rc=rc):
                        v = r[cn]
                        if v is None:
                            return False
                        for g in gone:
                            if decide(eng, st, val_eq(eng, v, g[rc])):
                                return True
                        return False
                    cur = tabs[ot.name]
                    if c["ref"][2]:
                        tabs, _ = delete_rows(eng, st, d, tabs, cur, refpred)
                    else:
                        if any(refpred(r) for r in cur.rows):
                            raise SqlErr(19, CONSTRAINT_FK, "FOREIGN KEY constraint failed")
    return tabs, len(gone)


def exec_stmt(eng, st, path, txid, stmt, args):
    """returns ('rows', cols, rows) | ('ok', affected, lastid)"""
    d = get_db(st, path)
    tabs = tables_for(d, txid)
    kind = stmt[0]
    if kind == "noop":
        return ("ok", 0, 0)
    if kind == "create_table":
        _, name, cols, pk, uniques, ine = stmt
        name = name.lower()
        if name in tabs:
            if ine:
                return ("ok", 0, 0)
            raise SqlErr(1, 1, "table %s already exists" % name)
        pk = tuple(pk) or tuple(c["name"] for c in cols if c["pk"])
        uniques = list(uniques) + [(c["name"],) for c in cols if c["unique"]]
        abstract = () if is_abstract_table(name) else None
        tabs = dict(tabs)
        tabs[name] = Table(name, cols, pk, uniques, (), abstract)
        put_tables(st, d, txid, tabs)
        return ("ok", 0, 0)
    if kind == "add_column":
        _, name, col = stmt
        t = find_table(tabs, name)
        if t.col(col["name"]) is not None:
            raise SqlErr(1, 1, "duplicate column name: %s" % col["name"])
        dv = col["default"]
        dv = canon_str(dv) if isinstance(dv, str) else dv
        rows = tuple(dict(r, **{col["name"].lower(): dv}) for r in t.rows)
        tabs = dict(tabs)
        tabs[t.name] = Table(t.name, t.cols + [col], t.pk, t.uniques, rows, t.abstract, t.ninserts)
        put_tables(st, d, txid, tabs)
        return ("ok", 0, 0)
    if kind == "select":
        _, table, cols, count, where, order, limit, offset = stmt
        t = find_table(tabs, table)
        if t.abstract is not None:
            rows = abstract_select(eng, st, t, where, args)
        else:
            rows = [r for r in t.rows if row_matches(eng, st, t, r, where, args)]
            rows = sort_rows(eng, st, rows, order)
        if offset is not None:
            o = operand_val(eng, offset, args)
            if is_sym(o):
                raise Unsupported("symbolic OFFSET")
            rows = rows[o:]
        if limit is not None:
            l = operand_val(eng, limit, args)
            if is_sym(l):
                raise Unsupported("symbolic LIMIT")
            if l >= 0:
                rows = rows[:l]
        if count:
            return ("rows", ["count"], [{"count": len(rows)}])
        if cols == "*":
            names = [c["name"].lower() for c in t.cols]
        else:
            names = [c.lower() for c in cols]
            for n in names:
                if t.col(n) is None:
                    raise SqlErr(1, 1, "no such column: %s" % n)
        return ("rows", names, rows)
    if d.txid is not None and txid is None:
        raise SqlErr(5, 5, "database is locked")
    if kind == "insert":
        _, table, cols, vals, upsert = stmt
        t = find_table(tabs, table)
        newrow = {c.lower(): operand_val(eng, v, args) for c, v in zip(cols, vals)}
        if upsert is not None:
            ck, sets = upsert
            for idx, r in enumerate(t.rows):
                eq = True
                for kc in ck:
                    eq = b_and(eq, val_eq(eng, newrow[kc.lower()], r[kc.lower()]))
                if decide(eng, st, eq):
                    nr = dict(r)
                    for c, o in sets:
                        nr[c.lower()] = operand_val(eng, o, args, r, newrow)
                    tabs = dict(tabs)
                    tabs[t.name] = t.with_rows(t.rows[:idx] + (nr,) + t.rows[idx + 1:])
                    put_tables(st, d, txid, tabs)
                    return ("ok", 1, 0)
        tabs = do_insert(eng, st, d, txid, tabs, t, newrow)
        put_tables(st, d, txid, tabs)
        return ("ok", 1, tabs[t.name].ninserts)
    if kind == "insert_select":
        _, table, src, where = stmt
        t = find_table(tabs, table)
        s = find_table(tabs, src)
        n = 0
        for r in s.rows:
            if row_matches(eng, st, s, r, where, args):
                if len(s.cols) != len(t.cols):
                    raise SqlErr(1, 1, "table %s has %d columns but %d values were supplied" % (t.name, len(t.cols), len(s.cols)))
                newrow = {tc["name"].lower(): r[sc["name"].lower()] for tc, sc in zip(t.cols, s.cols)}
                tabs = do_insert(eng, st, d, txid, tabs, tabs[t.name], newrow)
                n += 1
        put_tables(st, d, txid, tabs)
        return ("ok", n, 0)
    if kind == "update":
        _, table, sets, where = stmt
        t = find_table(tabs, table)
        check_fault(eng, st, d, t, "update")
        rows = []
        n = 0
        for r in t.rows:
            if row_matches(eng, st, t, r, where, args):
                nr = dict(r)
                for c, o in sets:
                    col = t.col(c)
                    if col is None:
                        raise SqlErr(1, 1, "no such column: %s" % c)
                    nr[c.lower()] = coerce(col, operand_val(eng, o, args, r))
                rows.append(nr)
                n += 1
            else:
                rows.append(r)
        tabs = dict(tabs)
        tabs[t.name] = t.with_rows(rows)
        put_tables(st, d, txid, tabs)
        return ("ok", n, 0)
    if kind == "delete":
        _, table, where = stmt
        t = find_table(tabs, table)
        tabs, n = delete_rows(eng, st, d, tabs, t, lambda r: row_matches(eng, st, t, r, where, args))
        put_tables(st, d, txid, tabs)
        return ("ok", n, 0)
    raise Unsupported("SQL statement kind %s" % kind)


# ------------------------------------------------------------------------------------------- Go <-> SQL values
def go_to_sql(eng, st, v, tid, codec=None):
    """Go value of static type tid -> canonical SQL value"""
    ir = eng.ir
    u = ir.under(tid)
    k = u["k"]
    if codec == "bigint":
        if v is None:
            return "<nil>"
        x = big_get(eng, st, v)
        return DecVal(x)
    if codec == "hash":
        if k == "ptr":
            if v is None:
                return BytesVal((), "blob")
            return BytesVal(eng.load(st, v), "hex")
        return BytesVal(v, "hex")
    if codec == "address":
        return BytesVal(v, "hex")
    if codec == "merkleproof":
        return ProofVal(v)
    if codec == "aggchainproof":
        if v is None:
            return BytesVal(tuple(b"null"), "blob")  # json.Marshal of a nil pointer
        return JsonVal(tid, json_snap(eng, st, v, tid))
    if codec in ("zeroisnull",):
        z = eng.zero(tid)
        if v == z and not is_sym(v):
            return None
        codec = None
    if codec not in (None, "identity"):
        raise Unsupported("meddler codec %s" % codec)
    if isinstance(v, Opaque):
        raise Unsupported("opaque value stored in SQL")
    if k == "basic":
        cls = u["cls"]
        if cls == "int":
            return sql_int(eng, v, u["bits"], u["signed"])
        if cls == "bool":
            return sql_int(eng, v)
        if cls == "string":
            return canon_str(v)
        raise Unsupported("SQL value of basic %s" % cls)
    if k == "ptr":
        if v is None:
            return None
        return go_to_sql(eng, st, eng.load(st, v), u["elem"], None)
    if k == "slice":
        if v is None or v.arr is None:
            return None
        info = ir.intinfo(u["elem"])
        if info and info[0] == 8:
            return BytesVal(eng.slice_elems(st, v), "blob")
        raise Unsupported("SQL value of slice %s" % tid)
    if k == "array":
        info = ir.intinfo(u["elem"])
        if info and info[0] == 8:
            return BytesVal(v, "blob")  # driver.Valuer of common.Hash/Address: raw bytes
    if k == "iface":
        if v is None:
            return None
        return go_to_sql(eng, st, v.val, v.tid, None)
    raise Unsupported("SQL value of type %s" % tid)


def sql_to_go(eng, st, v, tid, codec=None, colname="?"):
    """canonical SQL value -> Go value of type tid (what Scan / meddler would produce); raises Unsupported or returns value"""
    ir = eng.ir
    u = ir.under(tid)
    k = u["k"]
    if codec == "bigint":
        if v is None:
            raise ScanErr("converting NULL to string is unsupported (column %s)" % colname)
        if isinstance(v, DecVal):
            return big_new(eng, st, v.v)
        if isinstance(v, int):
            return big_new(eng, st, v)
        if isinstance(v, str):
            try:
                return big_new(eng, st, int(v))
            except ValueError:
                raise ScanErr("big.Int.SetString failed on %r" % v)
        raise Unsupported("bigint codec reading %r" % (v,))
    if codec == "hash":
        if k == "ptr":
            if v is None or (isinstance(v, BytesVal) and len(v.bs) == 0) or v == "":
                return None
            return eng.alloc_val(st, u["elem"], _hash32(v))
        if v is None:
            raise ScanErr("converting NULL to string is unsupported (column %s)" % colname)
        return _hash32(v)
    if codec == "address":
        if v is None:
            raise ScanErr("converting NULL to string is unsupported (column %s)" % colname)
        return _right(v, 20)
    if codec == "merkleproof":
        if isinstance(v, ProofVal):
            return v.hs
        raise ScanErr("unexpected len of hashes")
    if codec == "aggchainproof":
        if v is None or (isinstance(v, BytesVal) and v.bs == tuple(b"null")):
            return None
        if isinstance(v, JsonVal):
            return json_restore(eng, st, v.snap, v.tid)
        raise Unsupported("aggchainproof codec reading %r" % (v,))
    if codec in ("zeroisnull",):
        if v is None:
            return eng.zero(tid)
        codec = None
    if codec not in (None, "identity"):
        raise Unsupported("meddler codec %s" % codec)
    if k == "basic":
        cls = u["cls"]
        if cls == "int":
            if v is None:
                raise ScanErr("converting NULL to %s is unsupported (column %s)" % (u["name"], colname))
            if isinstance(v, (BytesVal, str, SymStr, DecVal)):
                if isinstance(v, str) and v.lstrip("-").isdigit():
                    return norm(int(v), u["bits"], u["signed"])
                raise ScanErr("converting text to integer (column %s)" % colname)
            if not is_sym(v):
                return norm(v, u["bits"], u["signed"])
            if is_arith(v):
                return v
            if u["bits"] < 64:
                return z3.simplify(z3.Extract(u["bits"] - 1, 0, v))
            return v
        if cls == "bool":
            if v is None:
                raise ScanErr("converting NULL to bool is unsupported (column %s)" % colname)
            if not is_sym(v):
                return v != 0
            return simp(v != (z3.BitVecVal(0, 64) if not is_arith(v) else 0))
        if cls == "string":
            if v is None:
                raise ScanErr("converting NULL to string is unsupported (column %s)" % colname)
            return sql_str(v)
        raise Unsupported("scan into basic %s" % cls)
    if k == "ptr":
        if v is None:
            return None
        inner = sql_to_go(eng, st, v, u["elem"], None, colname)
        return eng.alloc_val(st, u["elem"], inner)
    if k == "slice":
        info = ir.intinfo(u["elem"])
        if info and info[0] == 8:
            if v is None:
                return NIL_SLICE
            if isinstance(v, BytesVal):
                if v.kind == "blob":
                    return eng.new_slice(st, u["elem"], v.bs)
                s = sql_str(v)
                if isinstance(s, str):
                    return eng.new_slice(st, u["elem"], tuple(s.encode()))
                raise Unsupported("scan of symbolic hex text into []byte")
            if isinstance(v, str):
                return eng.new_slice(st, u["elem"], tuple(v.encode()))
        raise Unsupported("scan into slice %s" % tid)
    if k == "array":
        info = ir.intinfo(u["elem"])
        if info and info[0] == 8 and isinstance(v, BytesVal):
            # sql.Scanner of common.Hash: raw bytes of exactly len
            if v.kind == "blob" and len(v.bs) == u["len"]:
                return tuple(v.bs)
            raise ScanErr("can't scan into fixed bytes (column %s)" % colname)
    if k == "iface":
        if v is None:
            return None
        if isinstance(v, int):
            return Iface("int64", v)
        if isinstance(v, str):
            return Iface("string", v)
    raise Unsupported("scan into type %s" % tid)


class ScanErr(Exception):
    pass


def sql_str(v):
    if isinstance(v, str) or isinstance(v, SymStr):
        return v
    if isinstance(v, BytesVal):
        if v.kind == "hex":
            if all(type(b) is int for b in v.bs):
                return "0x" + bytes(v.bs).hex()
            return SymStr("hex", v.bs)
        if all(type(b) is int for b in v.bs):
            return bytes(v.bs).decode("utf-8", "surrogateescape")
        return SymStr("bytes", v.bs)
    if isinstance(v, DecVal):
        return str(v.v) if not is_sym(v.v) else SymStr("dec", v.v)
    if isinstance(v, int):
        return str(v)
    raise Unsupported("string form of SQL value %r" % (v,))


def _right(v, n):
    if isinstance(v, str):
        v = canon_str(v)
    if isinstance(v, BytesVal):
        bs = v.bs
        if len(bs) >= n:
            return tuple(bs[len(bs) - n:])
        return (0,) * (n - len(bs)) + tuple(bs)
    if isinstance(v, str):
        return (0,) * n  # HexToHash of non-hex text
    raise Unsupported("hash codec reading %r" % (v,))


def _hash32(v):
    return _right(v, 32)


def meddler_fields(eng, tid):
    """struct type -> [(field index, column, codec, is_pk, field type)]"""
    u = eng.ir.under(tid)
    if u["k"] != "struct":
        raise Unsupported("meddler on non-struct %s" % tid)
    out = []
    for i, f in enumerate(u["fields"]):
        if not f["exp"]:
            continue
        m = re.search(r'meddler:"([^"]*)"', f["tag"])
        tag = m.group(1).split(",") if m else [""]
        if tag[0] == "-":
            continue
        name = tag[0] or f["name"]
        codec = None
        pk = False
        for x in tag[1:]:
            if x == "pk":
                pk = True
            else:
                codec = x
        out.append((i, name.lower(), codec, pk, f["t"]))
    return out


# ------------------------------------------------------------------------------------------- intrinsics
def mk_sqlite_err(eng, st, e):
    if e.code == -2:
        return new_error(eng, st, "sql: database is closed")
    if e.code == -1:
        return eng.load(st, eng.global_ptr(st, "database/sql.ErrTxDone"))
    u = eng.ir.under(SQLITE_ERR_T)
    vals = []
    for f in u["fields"]:
        if f["name"] == "Code":
            vals.append(e.code)
        elif f["name"] == "ExtendedCode":
            vals.append(e.ext)
        elif f["name"] == "err":
            vals.append(e.msg)
        else:
            vals.append(eng.zero(f["t"]))
    return Iface(SQLITE_ERR_T, tuple(vals))


@intr("(" + SQLITE_ERR_T + ").Error")
def sqlite_err_error(eng, st, fr, args, ins):
    u = eng.ir.under(SQLITE_ERR_T)
    for i, f in enumerate(u["fields"]):
        if f["name"] == "err":
            return args[0][i]
    return "sqlite error"


def resolve_querier(eng, st, q):
    """interface/pointer value -> (path, txid)"""
    if isinstance(q, Iface):
        tid, v = q.tid, q.val
    else:
        raise Unsupported("querier %r" % (q,))
    if tid in ("*database/sql.DB", "*database/sql.Tx"):
        if v is None:
            raise GoPanic("nil *sql.DB / *sql.Tx")
        o = st.heap[v.obj]
        if o[0] == "sqldb":
            eng._closed_handle = len(o) > 2 and o[2] == "closed"
            return o[1], None
        return o[1], o[2]
    if tid == "*github.com/agglayer/aggkit/db.Tx":
        inner = eng.load(st, v)[0]
        return resolve_querier(eng, st, inner)
    raise Unsupported("querier of dynamic type %s" % tid)


def querier_from_ptr(eng, st, p):
    o = st.heap[p.obj]
    if o[0] == "sqldb":
        eng._closed_handle = len(o) > 2 and o[2] == "closed"
        return o[1], None
    return o[1], o[2]


def conv_args(eng, st, va):
    out = []
    for a in eng.slice_elems(st, va):
        if a is None:
            out.append(None)
        else:
            out.append(go_to_sql(eng, st, a.val, a.tid, None))
    return out


def run_sql(eng, st, path, txid, query, args):
    if getattr(eng, "_closed_handle", False) and txid is None:
        eng._closed_handle = False
        raise SqlErr(-2, -2, "sql: database is closed")
    if not isinstance(query, str):
        raise Unsupported("SQL text is not concrete")
    stmts = parse_sql(query)
    res = None
    for s in stmts:
        res = exec_stmt(eng, st, path, txid, s, args)
    eng.sql_statements[query] = eng.sql_statements.get(query, 0) + 1
    return res


def result_iface(affected, lastid):
    return Iface("zzverif.sqlResult", (affected, lastid))


@intr("(zzverif.sqlResult).RowsAffected")
def res_rows_affected(eng, st, fr, args, ins):
    return (args[0][0], None)


@intr("(zzverif.sqlResult).LastInsertId")
def res_last_id(eng, st, fr, args, ins):
    return (args[0][1], None)


def _exec(eng, st, path, txid, query, va):
    try:
        r = run_sql(eng, st, path, txid, query, conv_args(eng, st, va))
    except SqlErr as e:
        return (None, mk_sqlite_err(eng, st, e))
    if r is None or r[0] != "ok":
        return (result_iface(0, 0), None)
    return (result_iface(r[1], r[2]), None)


def _query(eng, st, path, txid, query, va):
    try:
        r = run_sql(eng, st, path, txid, query, conv_args(eng, st, va))
    except SqlErr as e:
        return (None, mk_sqlite_err(eng, st, e))
    if r[0] != "rows":
        r = ("rows", [], [])
    oid = st_oid(st)
    st.heap[oid] = ("sqlrows", tuple(r[1]), tuple(r[2]), -1, False)
    eng.objtype[oid] = "zz:sqlrows"
    return (Ptr(oid, ()), None)


def _queryrow(eng, st, path, txid, query, va):
    rows, err = _query(eng, st, path, txid, query, va)
    oid = st_oid(st)
    if err is not None:
        st.heap[oid] = ("sqlrow", (), None, err)
    else:
        o = st.heap[rows.obj]
        st.heap[oid] = ("sqlrow", o[1], o[2][0] if o[2] else None, None)
    eng.objtype[oid] = "zz:sqlrow"
    return Ptr(oid, ())


for _t in ("DB", "Tx"):
    def _mk(_t=_t):
        @intr("(*database/sql.%s).Exec" % _t)
        def f_exec(eng, st, fr, args, ins):
            path, txid = querier_from_ptr(eng, st, args[0])
            return _exec(eng, st, path, txid, args[1], args[2])

        @intr("(*database/sql.%s).ExecContext" % _t)
        def f_execc(eng, st, fr, args, ins):
            path, txid = querier_from_ptr(eng, st, args[0])
            return _exec(eng, st, path, txid, args[2], args[3])

        @intr("(*database/sql.%s).Query" % _t)
        def f_query(eng, st, fr, args, ins):
            path, txid = querier_from_ptr(eng, st, args[0])
            return _query(eng, st, path, txid, args[1], args[2])

        @intr("(*database/sql.%s).QueryRow" % _t)
        def f_queryrow(eng, st, fr, args, ins):
            path, txid = querier_from_ptr(eng, st, args[0])
            return _queryrow(eng, st, path, txid, args[1], args[2])
    _mk()


@intr("database/sql.Open")
def sql_open(eng, st, fr, args, ins):
    driver, dsn = args
    if not isinstance(dsn, str):
        raise Unsupported("symbolic DSN")
    m = re.match(r"^file:([^?]*)(\?(.*))?$", dsn)
    path = m.group(1) if m else dsn
    fk = bool(m and m.group(3) and "_foreign_keys=on" in m.group(3))
    if dbkey(path) not in st.world:
        st.world[dbkey(path)] = DBState(path, fk)
    else:
        d = st.world[dbkey(path)]
        if d.fk != fk:
            d2 = d.clone()
            d2.fk = fk
            st.world[dbkey(path)] = d2
    oid = st_oid(st)
    st.heap[oid] = ("sqldb", path)
    eng.objtype[oid] = "zz:sqldb"
    return (Ptr(oid, ()), None)


@intr("(*database/sql.DB).Ping")
def sqldb_ping(eng, st, fr, args, ins):
    return None


@intr("(*database/sql.DB).Close")
def sqldb_close(eng, st, fr, args, ins):
    o = st.heap[args[0].obj]
    st.heap[args[0].obj] = ("sqldb", o[1], "closed")  # later statements through this handle fail with "sql: database is closed"
    return None


@intr("(*database/sql.DB).SetMaxOpenConns", "(*database/sql.DB).SetMaxIdleConns", "(*database/sql.DB).SetConnMaxLifetime")
def sqldb_set(eng, st, fr, args, ins):
    return None


@intr("(*database/sql.DB).BeginTx", "(*database/sql.DB).Begin")
def sqldb_begin(eng, st, fr, args, ins):
    path = st.heap[args[0].obj][1]
    if len(st.heap[args[0].obj]) > 2:
        return (None, new_error(eng, st, "sql: database is closed"))
    if len(args) > 1 and args[1] is not None:
        from models import ctx_cancelled
        if ctx_cancelled(eng, st, args[1]):
            return (None, eng.load(st, eng.global_ptr(st, "context.Canceled")))
    d = get_db(st, path)
    if d.txid is not None:
        # a transaction that was never committed nor rolled back still holds the exclusive lock: after the busy timeout
        # SQLite answers SQLITE_BUSY ("database is locked")
        return (None, mk_sqlite_err(eng, st, SqlErr(5, 5, "database is locked")))
    d2 = d.clone()
    d2.txid = d.nextid
    d2.nextid = d.nextid + 1
    d2.working = d.committed
    st.world[dbkey(path)] = d2
    oid = st_oid(st)
    st.heap[oid] = ("sqltx", path, d2.txid)
    eng.objtype[oid] = "zz:sqltx"
    return (Ptr(oid, ()), None)


def _tx_done_err(eng, st):
    return eng.load(st, eng.global_ptr(st, "database/sql.ErrTxDone"))


@intr("(*database/sql.Tx).Commit")
def sqltx_commit(eng, st, fr, args, ins):
    _, path, txid = st.heap[args[0].obj]
    d = get_db(st, path)
    if d.txid != txid:
        return _tx_done_err(eng, st)
    d2 = d.clone()
    for (ft, fop, n) in d.faults:
        if fop == "commit":
            # a failed COMMIT leaves the transaction rolled back (database/sql closes it)
            d2.working, d2.txid = None, None
            st.world[dbkey(path)] = d2
            return mk_sqlite_err(eng, st, SqlErr(10, 10, "zzverif injected commit failure"))
    d2.committed = d.working
    d2.working = None
    d2.txid = None
    st.world[dbkey(path)] = d2
    return None


@intr("(*database/sql.Tx).Rollback")
def sqltx_rollback(eng, st, fr, args, ins):
    _, path, txid = st.heap[args[0].obj]
    d = get_db(st, path)
    if d.txid != txid:
        return _tx_done_err(eng, st)
    d2 = d.clone()
    d2.working = None
    d2.txid = None
    st.world[dbkey(path)] = d2
    return None


# ---- rows / row
@intr("(*database/sql.Rows).Next")
def rows_next(eng, st, fr, args, ins):
    k, cols, rows, pos, closed = st.heap[args[0].obj]
    if closed or pos + 1 >= len(rows):
        st.heap[args[0].obj] = (k, cols, rows, len(rows), True)
        return False
    st.heap[args[0].obj] = (k, cols, rows, pos + 1, False)
    return True


@intr("(*database/sql.Rows).Close")
def rows_close(eng, st, fr, args, ins):
    if args[0] is None:
        return None
    k, cols, rows, pos, closed = st.heap[args[0].obj]
    st.heap[args[0].obj] = (k, cols, rows, pos, True)
    return None


@intr("(*database/sql.Rows).Err")
def rows_err(eng, st, fr, args, ins):
    return None


@intr("(*database/sql.Rows).Columns")
def rows_columns(eng, st, fr, args, ins):
    return (eng.new_slice(st, "string", st.heap[args[0].obj][1]), None)


def scan_into(eng, st, cols, row, dests):
    if len(dests) != len(cols):
        return new_error(eng, st, "sql: expected %d destination arguments in Scan, not %d" % (len(cols), len(dests)))
    for c, d in zip(cols, dests):
        if d is None:
            return new_error(eng, st, "sql: Scan destination nil")
        ptr = d.val
        et = eng.ir.under(d.tid)["elem"]
        try:
            v = sql_to_go(eng, st, row[c], et, None, c)
        except ScanErr as e:
            return new_error(eng, st, "sql: Scan error on column %s: %s" % (c, e))
        eng.store(st, ptr, v)
    return None


@intr("(*database/sql.Rows).Scan")
def rows_scan(eng, st, fr, args, ins):
    k, cols, rows, pos, closed = st.heap[args[0].obj]
    if closed or pos < 0 or pos >= len(rows):
        return new_error(eng, st, "sql: Scan called without calling Next")
    return scan_into(eng, st, cols, rows[pos], eng.slice_elems(st, args[1]))


@intr("(*database/sql.Row).Scan")
def row_scan(eng, st, fr, args, ins):
    k, cols, row, err = st.heap[args[0].obj]
    if err is not None:
        return err
    if row is None:
        return eng.load(st, eng.global_ptr(st, "database/sql.ErrNoRows"))
    return scan_into(eng, st, cols, row, eng.slice_elems(st, args[1]))


@intr("(*database/sql.Row).Err")
def row_err(eng, st, fr, args, ins):
    return st.heap[args[0].obj][3]


# ---- meddler
M = "github.com/russross/meddler."


def meddler_dberr(eng, st, err):
    p = eng.alloc_val(st, "zz:meddlerDbErr", ("meddler: DB error", err))
    return Iface("*github.com/russross/meddler.dbErr", p)


@intr("(*github.com/russross/meddler.dbErr).Error")
def dberr_error(eng, st, fr, args, ins):
    return "meddler: DB error"


@intr(M + "DriverErr")
def meddler_drivererr(eng, st, fr, args, ins):
    e = eng.resolve_iface(st, args[0])
    if e is not None and e.tid == "*github.com/russross/meddler.dbErr":
        return (eng.load(st, e.val)[1], True)
    return (e, False)


@intr(M + "Insert")
def meddler_insert(eng, st, fr, args, ins):
    q, table, src = args
    path, txid = resolve_querier(eng, st, q)
    if src is None:
        raise GoPanic("meddler.Insert nil src")
    stid = eng.ir.under(src.tid)
    if stid["k"] != "ptr":
        return new_error(eng, st, "meddler called with non-pointer destination")
    sp = src.val
    if sp is None:
        raise GoPanic("meddler.Insert: nil struct pointer")
    sval = eng.load(st, sp)
    fields = meddler_fields(eng, stid["elem"])
    row = {}
    pkf = None
    for i, col, codec, pk, ft in fields:
        if pk:
            pkf = (i, col, ft)
            if sval[i] != 0:
                return new_error(eng, st, "meddler.Insert: primary key must be zero")
            continue
        row[col] = go_to_sql(eng, st, sval[i], ft, codec)
    try:
        d = get_db(st, path)
        tabs = tables_for(d, txid)
        if d.txid is not None and txid is None:
            raise SqlErr(5, 5, "database is locked")
        t = find_table(tabs, table)
        try:
            tabs = do_insert(eng, st, d, txid, tabs, t, row)
        except CondSqlErr as ce:
            put_tables(st, d, txid, ce.tabs)
            from symex import CondIface
            return CondIface(ce.cond, meddler_dberr(eng, st, mk_sqlite_err(eng, st, ce.err)))
        put_tables(st, d, txid, tabs)
    except SqlErr as e:
        return meddler_dberr(eng, st, mk_sqlite_err(eng, st, e))
    eng.sql_statements["meddler.Insert " + table] = eng.sql_statements.get("meddler.Insert " + table, 0) + 1
    if pkf is not None:
        newid = tabs[t.name].ninserts
        eng.store(st, Ptr(sp.obj, sp.path + (pkf[0],)), newid)
    return None


def fill_struct(eng, st, dstptr, struct_tid, cols, row):
    """meddler scan: every result column must have a struct field; NULLs / codecs by tag"""
    fields = {col: (i, codec, ft) for i, col, codec, pk, ft in meddler_fields(eng, struct_tid)}
    cur = eng.load(st, dstptr)
    cur = list(cur)
    for c in cols:
        if c not in fields:
            return new_error(eng, st, "meddler.Targets: column [%s] not found in struct" % c)
    for c in cols:
        i, codec, ft = fields[c]
        try:
            cur[i] = sql_to_go(eng, st, row[c], ft, codec, c)
        except ScanErr as e:
            return new_error(eng, st, "meddler.Scan: scan error: %s" % e)
    eng.store(st, dstptr, tuple(cur))
    return None


@intr(M + "QueryRow")
def meddler_queryrow(eng, st, fr, args, ins):
    q, dst, query, va = args
    path, txid = resolve_querier(eng, st, q)
    try:
        r = run_sql(eng, st, path, txid, query, conv_args(eng, st, va))
    except SqlErr as e:
        return meddler_dberr(eng, st, mk_sqlite_err(eng, st, e))
    _, cols, rows = r
    if not rows:
        return eng.load(st, eng.global_ptr(st, "database/sql.ErrNoRows"))
    du = eng.ir.under(dst.tid)
    if du["k"] != "ptr":
        return new_error(eng, st, "meddler called with non-pointer destination")
    pres = rows[0].get("__present__")
    if pres is not None:
        # abstract table, symbolic presence: destination is filled as if found; the error is ErrNoRows iff absent
        # (meddler leaves the destination untouched when there is no row: callers only read it on success)
        old = eng.load(st, dst.val)
        err = fill_struct(eng, st, dst.val, du["elem"], cols, rows[0])
        if err is not None:
            return err
        eng.store(st, dst.val, eng.merge_val(pres, eng.load(st, dst.val), old, du["elem"]))
        from symex import CondIface
        return CondIface(z3.Not(pres), eng.load(st, eng.global_ptr(st, "database/sql.ErrNoRows")))
    return fill_struct(eng, st, dst.val, du["elem"], cols, rows[0])


def _scan_all(eng, st, dst, cols, rows):
    du = eng.ir.under(dst.tid)  # pointer to slice of pointers to struct
    su = eng.ir.under(du["elem"])
    if su["k"] != "slice":
        return new_error(eng, st, "ScanAll called with pointer to non-slice")
    eu = eng.ir.under(su["elem"])
    if eu["k"] != "ptr":
        return new_error(eng, st, "ScanAll expects element to be pointers to structs")
    cur = eng.load(st, dst.val)
    elems = list(eng.slice_elems(st, cur))
    for row in rows:
        p = eng.alloc(st, eu["elem"])
        err = fill_struct(eng, st, p, eu["elem"], cols, row)
        if err is not None:
            return err
        elems.append(p)
    eng.store(st, dst.val, eng.new_slice(st, su["elem"], elems))
    return None


@intr(M + "QueryAll")
def meddler_queryall(eng, st, fr, args, ins):
    q, dst, query, va = args
    path, txid = resolve_querier(eng, st, q)
    try:
        r = run_sql(eng, st, path, txid, query, conv_args(eng, st, va))
    except SqlErr as e:
        return meddler_dberr(eng, st, mk_sqlite_err(eng, st, e))
    return _scan_all(eng, st, dst, r[1], r[2])


@intr(M + "ScanAll")
def meddler_scanall(eng, st, fr, args, ins):
    rows, dst = args
    k, cols, rws, pos, closed = st.heap[rows.obj]
    st.heap[rows.obj] = (k, cols, rws, len(rws), True)
    return _scan_all(eng, st, dst, cols, rws[pos + 1:] if pos >= 0 else rws)


@intr(M + "ScanRow")
def meddler_scanrow(eng, st, fr, args, ins):
    rows, dst = args
    k, cols, rws, pos, closed = st.heap[rows.obj]
    st.heap[rows.obj] = (k, cols, rws, len(rws), True)
    rest = rws[pos + 1:] if pos >= 0 else rws
    if not rest:
        return eng.load(st, eng.global_ptr(st, "database/sql.ErrNoRows"))
    du = eng.ir.under(dst.tid)
    return fill_struct(eng, st, dst.val, du["elem"], cols, rest[0])


@intr(M + "Register")
def meddler_register(eng, st, fr, args, ins):
    return None


# ---- sql-migrate
@intr("github.com/rubenv/sql-migrate.Exec")
def migrate_exec(eng, st, fr, args, ins):
    dbp, dialect, src, direction = args
    path = st.heap[dbp.obj][1]
    if direction != 0:
        raise Unsupported("migrate.Down")
    if src.tid != "*github.com/rubenv/sql-migrate.MemoryMigrationSource":
        raise Unsupported("migration source %s" % src.tid)
    ms = eng.load(st, src.val)
    migs = eng.slice_elems(st, ms[0])
    items = []
    mu = eng.ir.under("github.com/rubenv/sql-migrate.Migration")
    names = [f["name"] for f in mu["fields"]]
    for mp in migs:
        m = eng.load(st, mp)
        mid = m[names.index("Id")]
        up = eng.slice_elems(st, m[names.index("Up")])
        items.append((mid, up))
    items.sort(key=lambda x: x[0])
    n = 0
    for mid, up in items:
        d = get_db(st, path)
        if mid in d.migrations:
            continue
        for text in up:
            try:
                run_sql(eng, st, path, None, text, [])
            except SqlErr as e:
                return (n, new_error(eng, st, "migration %s failed: %s" % (mid, e.msg)))
        d = get_db(st, path).clone()
        d.migrations = d.migrations + (mid,)
        st.world[dbkey(path)] = d
        n += 1
    return (n, None)


def install(eng):
    eng.intrinsics.update(REG)
    eng.sql_statements = {}
    eng.ext_methods[SQLITE_ERR_T] = {"Error"}
    eng.ext_methods["*github.com/russross/meddler.dbErr"] = {"Error"}
    eng.ext_methods["zzverif.sqlResult"] = {"RowsAffected", "LastInsertId"}

    def ext_err(msg):
        return lambda eng, st: new_error(eng, st, msg)
    # primary result codes of go-sqlite3 (package-level variables of an external package)
    for nm, v in (("ErrError", 1), ("ErrBusy", 5), ("ErrLocked", 6), ("ErrReadonly", 8), ("ErrInterrupt", 9), ("ErrIoErr", 10), ("ErrFull", 13),
                  ("ErrConstraint", 19), ("ErrMismatch", 20), ("ErrMisuse", 21)):
        eng.external_globals["github.com/mattn/go-sqlite3." + nm] = (lambda v: (lambda e, st: v))(v)
    for nm, v in (("ErrConstraintPrimaryKey", 1555), ("ErrConstraintUnique", 2067), ("ErrConstraintForeignKey", 787), ("ErrConstraintTrigger", 1811),
                  ("ErrConstraintNotNull", 1299), ("ErrConstraintCheck", 275)):
        eng.external_globals["github.com/mattn/go-sqlite3." + nm] = (lambda v: (lambda e, st: v))(v)
    eng.external_globals.update({
        "github.com/ethereum/go-ethereum.NotFound": ext_err("not found"),
        "net/http.ErrServerClosed": ext_err("http: Server closed"),
        "database/sql.ErrNoRows": ext_err("sql: no rows in result set"),
        "database/sql.ErrTxDone": ext_err("sql: transaction has already been committed or rolled back"),
        "database/sql.ErrConnDone": ext_err("sql: connection is already closed"),
        "context.Canceled": ext_err("context canceled"),
        "context.DeadlineExceeded": ext_err("context deadline exceeded"),
        "io.EOF": ext_err("EOF"),
    })


# ---- fault injection (zzverif.FailInsert / FailDelete / ClearFaults)
ZZ = intrinsics.ZZ


def _db_of(eng, st, q):
    if isinstance(q, Iface):
        return resolve_querier(eng, st, q)[0]
    return st.heap[q.obj][1]


@intr(ZZ + "FailInsert")
def zz_failinsert(eng, st, fr, args, ins):
    path = _db_of(eng, st, args[0])
    if get_db(st, path).txid is not None:
        raise GoPanic("database is locked")
    table, n = args[1], args[2]
    d = get_db(st, path).clone()
    t = find_table(d.committed, table)
    d.faults = d.faults + ((t.name, "insert", t.ninserts + n),)
    st.world[dbkey(path)] = d
    return None


@intr(ZZ + "FailDelete")
def zz_faildelete(eng, st, fr, args, ins):
    path = _db_of(eng, st, args[0])
    d = get_db(st, path).clone()
    t = find_table(d.committed, args[1])
    d.faults = d.faults + ((t.name, "delete", None),)
    st.world[dbkey(path)] = d
    return None


@intr(ZZ + "ClearFaults")
def zz_clearfaults(eng, st, fr, args, ins):
    path = _db_of(eng, st, args[0])
    if get_db(st, path).txid is not None:
        # natively the DROP TRIGGER statements hit the exclusive lock of a transaction that was left open
        raise GoPanic("database is locked")
    d = get_db(st, path).clone()
    d.faults = ()
    st.world[dbkey(path)] = d
    return None
