// ssadump loads /repo (plus overlay harness files), builds go/ssa for the aggkit packages and
// writes a JSON IR consumed by /verif/engine.
package main

import (
	"crypto/sha256"
	"encoding/hex"
	"encoding/json"
	"flag"
	"fmt"
	"go/ast"
	"go/constant"
	"go/token"
	"go/types"
	"os"
	"path/filepath"
	"sort"
	"strings"

	"golang.org/x/tools/go/packages"
	"golang.org/x/tools/go/ssa"
	"golang.org/x/tools/go/ssa/ssautil"
)

type J = map[string]any

var (
	typeTab  = map[string]J{}
	typeIDs  = map[types.Type]string{}
	prog     *ssa.Program
	allowPfx []string
	methodQ  []types.Type
	seenMS   = map[string]bool{}
)

func allowed(path string) bool {
	for _, p := range allowPfx {
		if path == p || strings.HasPrefix(path, p+"/") || strings.HasPrefix(path, p) && strings.HasSuffix(p, "/") {
			return true
		}
	}
	return false
}

func qual(p *types.Package) string { return p.Path() }

func tid(t types.Type) string {
	if t == nil {
		return ""
	}
	if id, ok := typeIDs[t]; ok {
		return id
	}
	if a, ok := t.(*types.Alias); ok {
		id := tid(types.Unalias(a))
		typeIDs[t] = id
		return id
	}
	id := types.TypeString(t, qual)
	typeIDs[t] = id
	if _, ok := typeTab[id]; ok {
		return id
	}
	e := J{}
	typeTab[id] = e
	switch tt := t.(type) {
	case *types.Basic:
		e["k"] = "basic"
		e["name"] = tt.Name()
		info := tt.Info()
		bits := 0
		switch tt.Kind() {
		case types.Int8, types.Uint8:
			bits = 8
		case types.Int16, types.Uint16:
			bits = 16
		case types.Int32, types.Uint32:
			bits = 32
		case types.Int, types.Uint, types.Int64, types.Uint64, types.Uintptr, types.UntypedInt, types.UntypedRune:
			bits = 64
		case types.Float32:
			bits = 32
		case types.Float64, types.UntypedFloat:
			bits = 64
		}
		if tt.Kind() == types.UntypedRune {
			bits = 32
		}
		e["bits"] = bits
		e["signed"] = info&types.IsInteger != 0 && info&types.IsUnsigned == 0
		switch {
		case info&types.IsBoolean != 0:
			e["cls"] = "bool"
		case info&types.IsInteger != 0:
			e["cls"] = "int"
		case info&types.IsFloat != 0:
			e["cls"] = "float"
		case info&types.IsString != 0:
			e["cls"] = "string"
		case tt.Kind() == types.UnsafePointer:
			e["cls"] = "unsafeptr"
		case tt.Kind() == types.UntypedNil:
			e["cls"] = "nil"
		default:
			e["cls"] = "other"
		}
	case *types.Named:
		e["k"] = "named"
		e["name"] = id
		if tt.Obj().Pkg() != nil {
			e["pkg"] = tt.Obj().Pkg().Path()
		}
		e["under"] = tid(tt.Underlying())
		methodQ = append(methodQ, tt, types.NewPointer(tt))
	case *types.Alias:
		e["k"] = "named"
		e["name"] = id
		e["alias"] = true
		e["under"] = tid(types.Unalias(tt))
	case *types.Pointer:
		e["k"] = "ptr"
		e["elem"] = tid(tt.Elem())
	case *types.Struct:
		e["k"] = "struct"
		fs := []J{}
		for i := 0; i < tt.NumFields(); i++ {
			f := tt.Field(i)
			fs = append(fs, J{"name": f.Name(), "t": tid(f.Type()), "tag": tt.Tag(i), "emb": f.Embedded(), "exp": f.Exported()})
		}
		e["fields"] = fs
	case *types.Array:
		e["k"] = "array"
		e["len"] = tt.Len()
		e["elem"] = tid(tt.Elem())
	case *types.Slice:
		e["k"] = "slice"
		e["elem"] = tid(tt.Elem())
	case *types.Map:
		e["k"] = "map"
		e["key"] = tid(tt.Key())
		e["elem"] = tid(tt.Elem())
	case *types.Chan:
		e["k"] = "chan"
		e["elem"] = tid(tt.Elem())
	case *types.Signature:
		e["k"] = "func"
		ps := []string{}
		for i := 0; i < tt.Params().Len(); i++ {
			ps = append(ps, tid(tt.Params().At(i).Type()))
		}
		rs := []string{}
		for i := 0; i < tt.Results().Len(); i++ {
			rs = append(rs, tid(tt.Results().At(i).Type()))
		}
		e["params"] = ps
		e["results"] = rs
		e["variadic"] = tt.Variadic()
	case *types.Interface:
		e["k"] = "iface"
		ms := []string{}
		for i := 0; i < tt.NumMethods(); i++ {
			ms = append(ms, tt.Method(i).Name())
		}
		e["methods"] = ms
	case *types.Tuple:
		e["k"] = "tuple"
		es := []string{}
		for i := 0; i < tt.Len(); i++ {
			es = append(es, tid(tt.At(i).Type()))
		}
		e["elems"] = es
	case *types.TypeParam:
		e["k"] = "typeparam"
	default:
		e["k"] = "unknown"
		e["go"] = fmt.Sprintf("%T", t)
	}
	return id
}

var methodsTab = map[string]map[string]string{}

func drainMethods() {
	for len(methodQ) > 0 {
		t := methodQ[len(methodQ)-1]
		methodQ = methodQ[:len(methodQ)-1]
		id := tid(t)
		if seenMS[id] {
			continue
		}
		seenMS[id] = true
		if types.IsInterface(t) {
			continue
		}
		// skip generic (uninstantiated) types
		if n, ok := t.(*types.Named); ok && n.TypeParams().Len() > 0 && n.TypeArgs().Len() == 0 {
			continue
		}
		if p, ok := t.(*types.Pointer); ok {
			if n, ok := p.Elem().(*types.Named); ok && n.TypeParams().Len() > 0 && n.TypeArgs().Len() == 0 {
				continue
			}
		}
		ms := prog.MethodSets.MethodSet(t)
		if ms.Len() == 0 {
			continue
		}
		m := map[string]string{}
		for i := 0; i < ms.Len(); i++ {
			sel := ms.At(i)
			fn := prog.MethodValue(sel)
			if fn == nil {
				continue
			}
			m[sel.Obj().Name()] = fn.String()
			noteFunc(fn)
		}
		methodsTab[id] = m
	}
}

var (
	funcQ    []*ssa.Function
	seenFn   = map[*ssa.Function]bool{}
	funcsOut = map[string]J{}
)

func fnAllowed(fn *ssa.Function) bool {
	if fn.Pkg != nil {
		return allowed(fn.Pkg.Pkg.Path())
	}
	// synthetic wrappers / instantiations: decide by receiver or origin
	if o := fn.Origin(); o != nil && o != fn {
		return fnAllowed(o)
	}
	if fn.Signature.Recv() != nil {
		t := fn.Signature.Recv().Type()
		if p, ok := t.(*types.Pointer); ok {
			t = p.Elem()
		}
		if n, ok := t.(*types.Named); ok && n.Obj().Pkg() != nil {
			return allowed(n.Obj().Pkg().Path())
		}
	}
	if fn.Object() != nil && fn.Object().Pkg() != nil {
		return allowed(fn.Object().Pkg().Path())
	}
	if fn.Parent() != nil {
		return fnAllowed(fn.Parent())
	}
	// bound method closures / thunks: look at the wrapped method
	if len(fn.FreeVars) == 1 || strings.HasSuffix(fn.Name(), "$bound") || strings.HasSuffix(fn.Name(), "$thunk") {
		return len(fn.Blocks) > 0 && wrapperTargetAllowed(fn)
	}
	return false
}

func wrapperTargetAllowed(fn *ssa.Function) bool {
	for _, b := range fn.Blocks {
		for _, in := range b.Instrs {
			if c, ok := in.(ssa.CallInstruction); ok {
				if sc := c.Common().StaticCallee(); sc != nil && sc != fn {
					return fnAllowed(sc)
				}
				if c.Common().IsInvoke() {
					return true
				}
			}
		}
	}
	return false
}

func noteFunc(fn *ssa.Function) {
	if fn == nil || seenFn[fn] {
		return
	}
	seenFn[fn] = true
	funcQ = append(funcQ, fn)
}

func constVal(c *ssa.Const) any {
	if c.Value == nil {
		return nil
	}
	switch c.Value.Kind() {
	case constant.Bool:
		return constant.BoolVal(c.Value)
	case constant.String:
		return constant.StringVal(c.Value)
	case constant.Int:
		return c.Value.ExactString()
	case constant.Float:
		f, _ := constant.Float64Val(c.Value)
		return fmt.Sprintf("%v", f)
	}
	return c.Value.ExactString()
}

func operand(v ssa.Value) any {
	switch x := v.(type) {
	case nil:
		return nil
	case *ssa.Const:
		kind := "nil"
		if x.Value != nil {
			switch x.Value.Kind() {
			case constant.Bool:
				kind = "bool"
			case constant.String:
				kind = "string"
			case constant.Int:
				kind = "int"
			case constant.Float:
				kind = "float"
			default:
				kind = "other"
			}
		}
		return J{"c": constVal(x), "t": tid(x.Type()), "ck": kind}
	case *ssa.Global:
		tid(x.Type())
		globalsOut[x.String()] = J{"t": tid(x.Type().(*types.Pointer).Elem()), "pkg": x.Pkg.Pkg.Path()}
		return J{"g": x.String()}
	case *ssa.Function:
		noteFunc(x)
		return J{"f": x.String(), "t": tid(x.Type())}
	case *ssa.Builtin:
		return J{"b": x.Name()}
	case *ssa.Parameter:
		for i, p := range x.Parent().Params {
			if p == x {
				return J{"r": fmt.Sprintf("p:%d", i)}
			}
		}
		panic("param not found")
	case *ssa.FreeVar:
		for i, p := range x.Parent().FreeVars {
			if p == x {
				return J{"r": fmt.Sprintf("fv:%d", i)}
			}
		}
		panic("freevar not found")
	default:
		return J{"r": v.Name()}
	}
}

var globalsOut = map[string]J{}

func operands(vs []ssa.Value) []any {
	out := []any{}
	for _, v := range vs {
		out = append(out, operand(v))
	}
	return out
}

func callCommon(c *ssa.CallCommon, j J) {
	j["args"] = operands(c.Args)
	j["sig"] = tid(c.Signature())
	if c.IsInvoke() {
		j["mode"] = "invoke"
		j["recv"] = operand(c.Value)
		j["method"] = c.Method.Name()
		j["iface"] = tid(c.Value.Type())
		return
	}
	switch v := c.Value.(type) {
	case *ssa.Builtin:
		j["mode"] = "builtin"
		j["fn"] = v.Name()
		ts := []string{}
		for _, a := range c.Args {
			ts = append(ts, tid(a.Type()))
		}
		j["argtypes"] = ts
	case *ssa.Function:
		j["mode"] = "static"
		j["fn"] = v.String()
		noteFunc(v)
	default:
		j["mode"] = "dynamic"
		j["fnv"] = operand(c.Value)
	}
}

func dumpInstr(in ssa.Instruction, fset *token.FileSet) J {
	j := J{}
	if v, ok := in.(ssa.Value); ok {
		j["r"] = v.Name()
		j["t"] = tid(v.Type())
	}
	if p := in.Pos(); p.IsValid() {
		j["ln"] = fset.Position(p).Line
	}
	switch x := in.(type) {
	case *ssa.Alloc:
		j["op"] = "Alloc"
		j["heap"] = x.Heap
		j["elem"] = tid(x.Type().(*types.Pointer).Elem())
		j["cm"] = x.Comment
	case *ssa.BinOp:
		j["op"] = "BinOp"
		j["bop"] = x.Op.String()
		j["x"] = operand(x.X)
		j["y"] = operand(x.Y)
		j["xt"] = tid(x.X.Type())
		j["yt"] = tid(x.Y.Type())
	case *ssa.Call:
		j["op"] = "Call"
		callCommon(&x.Call, j)
	case *ssa.ChangeInterface:
		j["op"] = "ChangeInterface"
		j["x"] = operand(x.X)
	case *ssa.ChangeType:
		j["op"] = "ChangeType"
		j["x"] = operand(x.X)
	case *ssa.Convert:
		j["op"] = "Convert"
		j["x"] = operand(x.X)
		j["xt"] = tid(x.X.Type())
	case *ssa.MultiConvert:
		j["op"] = "Convert"
		j["x"] = operand(x.X)
		j["xt"] = tid(x.X.Type())
	case *ssa.DebugRef:
		return nil
	case *ssa.Defer:
		j["op"] = "Defer"
		callCommon(&x.Call, j)
	case *ssa.Extract:
		j["op"] = "Extract"
		j["x"] = operand(x.Tuple)
		j["i"] = x.Index
	case *ssa.Field:
		j["op"] = "Field"
		j["x"] = operand(x.X)
		j["i"] = x.Field
	case *ssa.FieldAddr:
		j["op"] = "FieldAddr"
		j["x"] = operand(x.X)
		j["i"] = x.Field
	case *ssa.Go:
		j["op"] = "Go"
		callCommon(&x.Call, j)
	case *ssa.If:
		j["op"] = "If"
		j["x"] = operand(x.Cond)
	case *ssa.Index:
		j["op"] = "Index"
		j["x"] = operand(x.X)
		j["i"] = operand(x.Index)
		j["xt"] = tid(x.X.Type())
		j["it"] = tid(x.Index.Type())
	case *ssa.IndexAddr:
		j["op"] = "IndexAddr"
		j["x"] = operand(x.X)
		j["i"] = operand(x.Index)
		j["xt"] = tid(x.X.Type())
		j["it"] = tid(x.Index.Type())
	case *ssa.Jump:
		j["op"] = "Jump"
	case *ssa.Lookup:
		j["op"] = "Lookup"
		j["x"] = operand(x.X)
		j["i"] = operand(x.Index)
		j["xt"] = tid(x.X.Type())
		j["commaok"] = x.CommaOk
	case *ssa.MakeChan:
		j["op"] = "MakeChan"
		j["size"] = operand(x.Size)
	case *ssa.MakeClosure:
		j["op"] = "MakeClosure"
		j["fn"] = x.Fn.(*ssa.Function).String()
		noteFunc(x.Fn.(*ssa.Function))
		j["bindings"] = operands(x.Bindings)
	case *ssa.MakeInterface:
		j["op"] = "MakeInterface"
		j["x"] = operand(x.X)
		j["xt"] = tid(x.X.Type())
		methodQ = append(methodQ, x.X.Type())
	case *ssa.MakeMap:
		j["op"] = "MakeMap"
	case *ssa.MakeSlice:
		j["op"] = "MakeSlice"
		j["len"] = operand(x.Len)
		j["cap"] = operand(x.Cap)
	case *ssa.MapUpdate:
		j["op"] = "MapUpdate"
		j["m"] = operand(x.Map)
		j["k"] = operand(x.Key)
		j["v"] = operand(x.Value)
		j["mt"] = tid(x.Map.Type())
	case *ssa.Next:
		j["op"] = "Next"
		j["iter"] = operand(x.Iter)
		j["isstr"] = x.IsString
	case *ssa.Panic:
		j["op"] = "Panic"
		j["x"] = operand(x.X)
	case *ssa.Phi:
		j["op"] = "Phi"
		j["edges"] = operands(x.Edges)
		j["cm"] = x.Comment
	case *ssa.Range:
		j["op"] = "Range"
		j["x"] = operand(x.X)
		j["xt"] = tid(x.X.Type())
	case *ssa.Return:
		j["op"] = "Return"
		j["results"] = operands(x.Results)
	case *ssa.RunDefers:
		j["op"] = "RunDefers"
	case *ssa.Select:
		j["op"] = "Select"
		sts := []J{}
		for _, s := range x.States {
			sts = append(sts, J{"dir": int(s.Dir), "chan": operand(s.Chan), "send": operand(s.Send)})
		}
		j["states"] = sts
		j["blocking"] = x.Blocking
	case *ssa.Send:
		j["op"] = "Send"
		j["chan"] = operand(x.Chan)
		j["x"] = operand(x.X)
	case *ssa.Slice:
		j["op"] = "Slice"
		j["x"] = operand(x.X)
		j["xt"] = tid(x.X.Type())
		j["lo"] = operand(x.Low)
		j["hi"] = operand(x.High)
		j["max"] = operand(x.Max)
	case *ssa.SliceToArrayPointer:
		j["op"] = "SliceToArrayPointer"
		j["x"] = operand(x.X)
	case *ssa.Store:
		j["op"] = "Store"
		j["addr"] = operand(x.Addr)
		j["val"] = operand(x.Val)
	case *ssa.TypeAssert:
		j["op"] = "TypeAssert"
		j["x"] = operand(x.X)
		j["at"] = tid(x.AssertedType)
		j["commaok"] = x.CommaOk
		methodQ = append(methodQ, x.AssertedType)
	case *ssa.UnOp:
		j["op"] = "UnOp"
		j["uop"] = x.Op.String()
		j["x"] = operand(x.X)
		j["xt"] = tid(x.X.Type())
		j["commaok"] = x.CommaOk
	default:
		j["op"] = fmt.Sprintf("UNSUPPORTED:%T", in)
	}
	return j
}

func dumpFunc(fn *ssa.Function) J {
	f := J{"name": fn.String()}
	if fn.Pkg != nil {
		f["pkg"] = fn.Pkg.Pkg.Path()
	}
	ps := []J{}
	for _, p := range fn.Params {
		ps = append(ps, J{"name": p.Name(), "t": tid(p.Type())})
	}
	f["params"] = ps
	fvs := []J{}
	for _, p := range fn.FreeVars {
		fvs = append(fvs, J{"name": p.Name(), "t": tid(p.Type())})
	}
	f["freevars"] = fvs
	f["sig"] = tid(fn.Signature)
	if fn.Synthetic != "" {
		f["synthetic"] = fn.Synthetic
	}
	if fn.Pos().IsValid() {
		p := prog.Fset.Position(fn.Pos())
		f["pos"] = fmt.Sprintf("%s:%d", p.Filename, p.Line)
	}
	if fn.Recover != nil {
		f["recover"] = fn.Recover.Index
	}
	blocks := []J{}
	for _, b := range fn.Blocks {
		bj := J{"i": b.Index, "cm": b.Comment}
		ss := []int{}
		for _, s := range b.Succs {
			ss = append(ss, s.Index)
		}
		pp := []int{}
		for _, s := range b.Preds {
			pp = append(pp, s.Index)
		}
		bj["succs"] = ss
		bj["preds"] = pp
		ins := []J{}
		for _, in := range b.Instrs {
			if d := dumpInstr(in, prog.Fset); d != nil {
				ins = append(ins, d)
			}
		}
		bj["instrs"] = ins
		blocks = append(blocks, bj)
	}
	f["blocks"] = blocks
	return f
}

func main() {
	dir := flag.String("dir", "/repo", "module directory")
	overlayRoot := flag.String("overlay", "", "directory whose tree is overlaid on -dir")
	out := flag.String("out", "ir.json", "output file")
	allow := flag.String("allow", "github.com/agglayer/aggkit,github.com/golang-collections/collections/stack,slices,maps,cmp,math/bits", "comma-separated package path prefixes whose function bodies are dumped")
	tags := flag.String("tags", "", "build tags")
	flag.Parse()
	allowPfx = strings.Split(*allow, ",")
	patterns := flag.Args()
	if len(patterns) == 0 {
		patterns = []string{"./..."}
	}

	overlay := map[string][]byte{}
	srcHash := sha256.New()
	if *overlayRoot != "" {
		filepath.Walk(*overlayRoot, func(p string, info os.FileInfo, err error) error {
			if err != nil || info.IsDir() || !strings.HasSuffix(p, ".go") {
				return nil
			}
			rel, _ := filepath.Rel(*overlayRoot, p)
			b, _ := os.ReadFile(p)
			overlay[filepath.Join(*dir, rel)] = b
			return nil
		})
	}
	cfg := &packages.Config{
		Mode:    packages.LoadSyntax | packages.NeedEmbedFiles | packages.NeedEmbedPatterns,
		Dir:     *dir,
		Overlay: overlay,
		Env:     append(os.Environ(), "GOFLAGS=-mod=mod", "GOPROXY=off"),
	}
	if *tags != "" {
		cfg.BuildFlags = []string{"-tags=" + *tags}
	}
	// phase 1: find the allow-listed dependency closure of the requested packages
	cfg1 := *cfg
	cfg1.Mode = packages.NeedName | packages.NeedImports | packages.NeedDeps
	pk1, err := packages.Load(&cfg1, patterns...)
	if err != nil {
		fmt.Fprintln(os.Stderr, "load1:", err)
		os.Exit(2)
	}
	want := map[string]bool{}
	packages.Visit(pk1, nil, func(p *packages.Package) {
		if allowed(p.PkgPath) {
			want[p.PkgPath] = true
		}
	})
	patterns = patterns[:0]
	for p := range want {
		patterns = append(patterns, p)
	}
	sort.Strings(patterns)
	pkgs, err := packages.Load(cfg, patterns...)
	if err != nil {
		fmt.Fprintln(os.Stderr, "load:", err)
		os.Exit(2)
	}
	nerr := 0
	for _, p := range pkgs {
		for _, e := range p.Errors {
			fmt.Fprintln(os.Stderr, "pkg error:", p.PkgPath, e)
			nerr++
		}
	}
	if nerr > 0 {
		os.Exit(2)
	}
	var spkgs []*ssa.Package
	prog, spkgs = ssautil.Packages(pkgs, ssa.InstantiateGenerics)
	embeds := J{}
	files := []string{}
	for i, p := range pkgs {
		if spkgs[i] == nil {
			continue
		}
		spkgs[i].Build()
		for _, f := range p.CompiledGoFiles {
			files = append(files, f)
		}
		// //go:embed of string / []byte vars
		for _, file := range p.Syntax {
			for _, d := range file.Decls {
				gd, ok := d.(*ast.GenDecl)
				if !ok || gd.Tok != token.VAR {
					continue
				}
				for _, sp := range gd.Specs {
					vs := sp.(*ast.ValueSpec)
					doc := vs.Doc
					if doc == nil {
						doc = gd.Doc
					}
					if doc == nil {
						continue
					}
					for _, c := range doc.List {
						if strings.HasPrefix(c.Text, "//go:embed ") && len(vs.Names) == 1 {
							pat := strings.TrimSpace(strings.TrimPrefix(c.Text, "//go:embed "))
							fdir := filepath.Dir(prog.Fset.Position(file.Pos()).Filename)
							if b, err := os.ReadFile(filepath.Join(fdir, pat)); err == nil {
								embeds[p.PkgPath+"."+vs.Names[0].Name] = string(b)
							}
						}
					}
				}
			}
		}
	}
	sort.Strings(files)
	for _, f := range files {
		if b, ok := overlay[f]; ok {
			srcHash.Write(b)
		} else if b, err := os.ReadFile(f); err == nil {
			srcHash.Write(b)
		}
	}

	for fn := range ssautil.AllFunctions(prog) {
		if fnAllowed(fn) {
			noteFunc(fn)
		}
	}
	nfun := 0
	for len(funcQ) > 0 || len(methodQ) > 0 {
		drainMethods()
		if len(funcQ) == 0 {
			continue
		}
		fn := funcQ[len(funcQ)-1]
		funcQ = funcQ[:len(funcQ)-1]
		if len(fn.Blocks) == 0 || !fnAllowed(fn) {
			// external: only signature
			funcsOut[fn.String()] = J{"name": fn.String(), "external": true, "sig": tid(fn.Signature)}
			continue
		}
		funcsOut[fn.String()] = dumpFunc(fn)
		nfun++
	}
	// package init order + member lists
	pk := J{}
	for i, p := range pkgs {
		if spkgs[i] == nil {
			continue
		}
		imps := []string{}
		for ip := range p.Imports {
			imps = append(imps, ip)
		}
		sort.Strings(imps)
		pk[p.PkgPath] = J{"imports": imps, "dir": filepath.Dir(firstOr(p.GoFiles))}
	}
	res := J{
		"src_hash": hex.EncodeToString(srcHash.Sum(nil)),
		"types":    typeTab,
		"funcs":    funcsOut,
		"globals":  globalsOut,
		"methods":  methodsTab,
		"embeds":   embeds,
		"packages": pk,
	}
	f, err := os.Create(*out)
	if err != nil {
		panic(err)
	}
	enc := json.NewEncoder(f)
	if err := enc.Encode(res); err != nil {
		panic(err)
	}
	f.Close()
	fmt.Fprintf(os.Stderr, "ssadump: %d packages, %d functions with bodies, %d types\n", len(pkgs), nfun, len(typeTab))
}

func firstOr(s []string) string {
	if len(s) > 0 {
		return s[0]
	}
	return ""
}
