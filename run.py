#!/opt/veriftools/pyvenv/bin/python3
"""Driver: run.py check <Cxx> [--tier quick|thorough]   |   run.py replay <file>

Regenerates the SSA IR from $VERIF_REPO (default /repo) with the harness overlay, runs the obligations of the
property's check specification symbolically, replays counterexamples natively, validates the translator on
concrete vectors and writes /verif/evidence/<id>.json.  Exit 0 = held, 1 = VIOLATION, 2 = inconclusive/broken.
"""
import argparse
import hashlib
import importlib.util
import json
import multiprocessing as mp
import os
import random
import re
import shutil
import subprocess
import sys
import time
import traceback

ROOT = os.path.dirname(os.path.abspath(__file__))
sys.path.insert(0, os.path.join(ROOT, "engine"))
REPO = os.environ.get("VERIF_REPO", "/repo")
CACHE = os.path.join(ROOT, ".cache")
HARNESS = os.path.join(ROOT, "harness")
# evidence is written to /verif/evidence only when the check runs against /repo itself; a run against another tree
# (VERIF_REPO: development aid for seeded changes) keeps its output apart
EVID = os.path.join(ROOT, "evidence") if os.path.realpath(REPO) == "/repo" else os.path.join(CACHE, "evidence-other-tree")
MOD = "github.com/agglayer/aggkit"
GOENV = dict(os.environ, GOFLAGS="-mod=mod", GOPROXY="off")
for _k in ("GOSUMDB", "GOTOOLCHAIN"):
    GOENV.pop(_k, None)


def sh(cmd, **kw):
    return subprocess.run(cmd, stdout=subprocess.PIPE, stderr=subprocess.STDOUT, text=True, errors="replace", **kw)


def ensure_ssadump():
    binp = os.path.join(CACHE, "bin", "ssadump")
    src = os.path.join(ROOT, "ssadump", "main.go")
    if not os.path.exists(binp) or os.path.getmtime(binp) < os.path.getmtime(src):
        os.makedirs(os.path.dirname(binp), exist_ok=True)
        r = sh(["go", "build", "-o", binp, "."], cwd=os.path.join(ROOT, "ssadump"), env=GOENV)
        if r.returncode != 0:
            print(r.stdout)
            raise SystemExit("cannot build ssadump")
    return binp


_OVL = {}


def overlay_dir(scratch):
    """the tree overlaid on the repository: the harness files plus the source rewrites of harness/REWRITES.json, which are
    re-applied to the repository's current files on every run (environment stubs: e.g. the status ticker of the send loop)."""
    if scratch in _OVL:
        return _OVL[scratch]
    d = os.path.join(scratch, "ovl")
    shutil.rmtree(d, ignore_errors=True)
    shutil.copytree(HARNESS, d, ignore=shutil.ignore_patterns("REWRITES.json"))
    rw = os.path.join(HARNESS, "REWRITES.json")
    if os.path.exists(rw):
        for r in json.load(open(rw)):
            src = os.path.join(REPO, r["file"])
            if not os.path.exists(src):
                continue
            txt = open(src).read()
            if txt.count(r["old"]) != r.get("count", 1):
                continue  # the code changed shape: leave the file alone; the checks that need the stub report it
            dst = os.path.join(d, r["file"])
            os.makedirs(os.path.dirname(dst), exist_ok=True)
            open(dst, "w").write(txt.replace(r["old"], r["new"]))
    _OVL[scratch] = d
    return d


def build_ir(prop, pkgs, scratch):
    binp = ensure_ssadump()
    out = os.path.join(CACHE, "ir_%s_%d.json" % (prop, os.getpid()))
    t0 = time.time()
    r = sh([binp, "-dir", REPO, "-overlay", overlay_dir(scratch), "-out", out] + pkgs + ["./internal/zzverif"], env=GOENV)
    if r.returncode != 0:
        print(r.stdout)
        return None, time.time() - t0, r.stdout
    return out, time.time() - t0, r.stdout


# ------------------------------------------------------------------------------------------ obligations
_IR = None


def run_obligation(task):
    """executed in a worker process"""
    from symex import Engine
    import intrinsics
    import models
    ob = task["ob"]
    res = {"name": ob["name"], "harness": ob["harness"], "bounds": ob.get("bounds", ""), "params": ob.get("params", {})}
    t0 = time.time()
    import faulthandler
    faulthandler.dump_traceback_later(task["time_limit_s"] + 90, exit=True, file=open(os.devnull, "w"))
    try:
        eng = Engine(_IR, unwind=ob.get("unwind", 70), solver_timeout_ms=int(task["solver_timeout_s"] * 1000))
        intrinsics.install(eng)
        models.install(eng)
        eng.params = ob.get("params", {})
        eng.arith = ob.get("arith", "bv")
        eng.vector = task.get("vector")
        eng.allow_panics = ob.get("allow_panics", False)
        eng.deadline = time.time() + task["time_limit_s"]
        eng.max_paths = ob.get("max_paths", 100000)
        if ob.get("merging") is False:
            eng.merging = False
        st = eng.initial_state()
        pk = ob["harness"].rsplit(".", 1)[0]
        st = eng.run_init(st, init_order(_IR, pk))
        eng.run_function(ob["harness"], (), st)
        kinds = {}
        bad = []
        samples_paths = []
        for kind, info, s in eng.results:
            kinds[kind] = kinds.get(kind, 0) + 1
            if kind in ("unsupported", "unwind", "timeout", "blocked") or (kind == "panic" and not eng.allow_panics):
                if len(bad) < 10:
                    bad.append({"kind": kind, "info": str(info)[:300]})
                if kind == "panic" and len([b for b in bad if "model" in b]) < 3:
                    r = eng.solver.check(s.pc)
                    if r == "sat":
                        bad[-1]["model"] = eng.model_values(s, eng.solver.last_model)
        res["path_kinds"] = kinds
        res["bad_paths"] = bad
        res["asserts"] = eng.asserts
        res["reached"] = eng.reached
        res["stats"] = {k: v for k, v in eng.stats.items()}
        res["fork_sites"] = dict(sorted(eng.fn_stats.items(), key=lambda kv: -kv[1])[:8])
        res["functions"] = sorted(f for f in eng.functions_entered if "zzverif" not in f)
        res["solver_queries"] = eng.solver.nq
        res["solver_s"] = round(eng.solver.t, 3)
        res["keccak_apps"] = {str(k): len(v) for k, v in eng.keccak_apps.items()}
        # validation vectors: models of a few completed paths
        want = task.get("want_vectors", 0)
        vecs = []
        if want and eng.vector is None:
            done = [s for kind, _, s in eng.results if kind == "returned"]
            rnd = random.Random(task.get("seed", 0))
            rnd.shuffle(done)
            import z3 as _z3
            for s in done[:want]:
                # diversify: pin a few random symbols to random values when the path condition allows it
                extra = []
                syms = [x for x in s.syms if x[2] != "bool"]
                rnd.shuffle(syms)
                for name, e, bits in syms[:8]:
                    if isinstance(e, _z3.BitVecRef):
                        c = e == _z3.BitVecVal(rnd.getrandbits(e.size()), e.size())
                    elif isinstance(e, _z3.ArithRef):
                        c = e == rnd.getrandbits(min(int(bits), 40))
                    else:
                        continue
                    if eng.solver.check(s.pc, _z3.And(*(extra + [c]))) == "sat":
                        extra.append(c)
                if eng.solver.check(s.pc, _z3.And(*extra) if extra else None) == "sat":
                    vecs.append(eng.model_values(s, eng.solver.last_model))
        res["vectors"] = vecs
        if eng.vector is not None:
            # concrete run: report observations
            obs = []
            outcome = None
            for kind, info, s in eng.results:
                outcome = kind
                obs = [models.fmt_observe(n, v) for n, v in s.trace]
            res["concrete"] = {"outcome": outcome, "observed": obs,
                               "failures": [a["name"] for a in eng.asserts if a["verdict"] in ("violated",)]}
    except Exception as e:  # engine bug: inconclusive, never success
        res["error"] = "%s: %s" % (type(e).__name__, e)
        res["trace"] = traceback.format_exc()[-1500:]
    res["wall_s"] = round(time.time() - t0, 2)
    return res


def _worker(conn, task):
    try:
        conn.send(run_obligation(task))
    except BaseException as e:  # noqa
        try:
            conn.send({"name": task["ob"]["name"], "harness": task["ob"]["harness"], "error": "worker failed: %s %s" % (type(e).__name__, e)})
        except Exception:
            pass
    finally:
        conn.close()


def run_parallel(tasks):
    """one forked process per task (the IR is inherited copy-on-write), at most 16 at a time; a worker that dies or overruns
    yields an error result for its own task only"""
    ctx = mp.get_context("fork")
    n = len(tasks)
    out = [None] * n
    pending = list(range(n))
    running = {}
    nw = int(os.environ.get("VERIF_WORKERS", "16"))

    def fail(i, why):
        t = tasks[i]
        out[i] = {"name": t["ob"]["name"], "harness": t["ob"]["harness"], "error": "worker failed: " + why}
    while pending or running:
        while pending and len(running) < nw:
            i = pending.pop(0)
            rc, wc = ctx.Pipe(duplex=False)
            pr = ctx.Process(target=_worker, args=(wc, tasks[i]))
            pr.start()
            wc.close()
            running[i] = (pr, rc, time.time())
        done = []
        for i, (pr, rc, t0) in running.items():
            try:
                if rc.poll(0):
                    out[i] = rc.recv()
                    done.append(i)
                    continue
            except (EOFError, OSError):
                fail(i, "worker exited without a result (exit code %s)" % pr.exitcode)
                done.append(i)
                continue
            if not pr.is_alive():
                if rc.poll(0.5):
                    try:
                        out[i] = rc.recv()
                    except (EOFError, OSError):
                        fail(i, "worker exited without a result (exit code %s)" % pr.exitcode)
                else:
                    fail(i, "worker exited without a result (exit code %s)" % pr.exitcode)
                done.append(i)
            elif time.time() - t0 > tasks[i]["time_limit_s"] + 150:
                pr.kill()
                fail(i, "time limit of %d s exceeded" % tasks[i]["time_limit_s"])
                done.append(i)
        for i in done:
            pr, rc, _ = running.pop(i)
            pr.join(5)
            rc.close()
        if not done:
            time.sleep(0.1)
    return out


def init_order(ir, pkg):
    """dependency-ordered list of dumped packages reachable from pkg"""
    order, seen = [], set()

    def visit(p):
        if p in seen or p not in ir.packages:
            return
        seen.add(p)
        for q in ir.packages[p]["imports"]:
            visit(q)
        order.append(p)
    visit(pkg)
    return order


# ------------------------------------------------------------------------------------------ native side
def harness_funcs_by_pkg():
    out = {}
    for d, _, files in os.walk(HARNESS):
        for f in files:
            if not f.endswith(".go") or f.endswith("_test.go"):
                continue
            src = open(os.path.join(d, f)).read()
            names = re.findall(r"^func (ZZVerif_\w+)\(\)", src, re.M)
            if names:
                rel = os.path.relpath(d, HARNESS)
                pm = re.search(r"^package (\w+)", src, re.M)
                out.setdefault(rel, {"pkgname": pm.group(1), "funcs": []})["funcs"].extend(names)
    return out


def native_run(cases, scratch):
    """cases: [{harness(full name), values, params}] -> list of result dicts (same order) ; one go test per package"""
    hf = harness_funcs_by_pkg()
    bypkg = {}
    for idx, c in enumerate(cases):
        full = c["harness"]
        pkgpath, fn = full.rsplit(".", 1)
        rel = pkgpath[len(MOD) + 1:]
        bypkg.setdefault(rel, []).append((idx, fn, c))
    results = [None] * len(cases)
    overlay = {}
    ovd = overlay_dir(scratch)
    for d, _, files in os.walk(ovd):
        for f in files:
            if f.endswith(".go"):
                rel = os.path.relpath(os.path.join(d, f), ovd)
                overlay[os.path.join(REPO, rel)] = os.path.join(d, f)
    logs = []
    for rel, lst in bypkg.items():
        info = hf[rel]
        tf = os.path.join(scratch, rel.replace("/", "_") + "_replay_test.go")
        with open(tf, "w") as f:
            f.write("package %s\n\nimport (\n\t\"testing\"\n\n\t\"%s/internal/zzverif\"\n)\n\n" % (info["pkgname"], MOD))
            f.write("func TestZZVerifReplay(t *testing.T) {\n\tzzverif.ReplayMain(map[string]func(){\n")
            for n in sorted(set(info["funcs"])):
                f.write("\t\t\"%s\": %s,\n" % (n, n))
            f.write("\t})\n}\n")
        ov = dict(overlay)
        ov[os.path.join(REPO, rel, "zz_verif_replay_test.go")] = tf
        ovf = os.path.join(scratch, "overlay_%s.json" % rel.replace("/", "_"))
        json.dump({"Replace": ov}, open(ovf, "w"))
        # one test process per NATIVE_CHUNK cases: every case opens its own SQLite files, and a single process running
        # thousands of them runs out of file descriptors
        for c0 in range(0, len(lst), NATIVE_CHUNK):
            part = lst[c0:c0 + NATIVE_CHUNK]
            cf = os.path.join(scratch, "cases_%s_%d.json" % (rel.replace("/", "_"), c0))
            json.dump([{"harness": fn, "values": c.get("values", {}), "params": c.get("params", {})} for _, fn, c in part], open(cf, "w"))
            env = dict(GOENV, VERIF_CASES=cf)
            r = sh(["go", "test", "-vet=off", "-count=1", "-timeout", "20m", "-overlay", ovf, "-run", "^TestZZVerifReplay$", "-v", "./" + rel],
                   cwd=REPO, env=env)
            logs.append(r.stdout[-3000:])
            got = {}
            for line in r.stdout.splitlines():
                if line.startswith("ZZVERIF-CASE "):
                    try:
                        j = json.loads(line[len("ZZVERIF-CASE "):])
                        got[j["i"]] = j
                    except Exception:
                        pass
            for k, (idx, fn, c) in enumerate(part):
                res = got.get(k, {"error": "no native result", "log": r.stdout[-1500:]})
                if "i" in res:
                    res["i"] = c0 + k
                results[idx] = res
    return results, logs


NATIVE_CHUNK = 250


# ------------------------------------------------------------------------------------------ main check
def load_spec(prop):
    p = os.path.join(ROOT, "checks", prop + ".py")
    spec = importlib.util.spec_from_file_location("check_" + prop, p)
    m = importlib.util.module_from_spec(spec)
    spec.loader.exec_module(m)
    return m


def known_findings():
    p = os.path.join(ROOT, "known_findings.json")
    if not os.path.exists(p):
        return []
    return json.load(open(p)).get("findings", [])


def check(prop, tier, only=None):
    global _IR
    t_start = time.time()
    seed = int(os.environ.get("VERIF_SEED", "0") or 0)
    spec = load_spec(prop)
    obs = [o for o in spec.OBLIGATIONS if tier in o.get("tiers", ("quick", "thorough"))]
    if only:
        obs = [o for o in obs if any(x in o["name"] for x in only)]
    for o in obs:
        if tier == "thorough" and "params_thorough" in o:
            o["params"] = o["params_thorough"]
            if "bounds_thorough" in o:
                o["bounds"] = o["bounds_thorough"]
    scratch = os.path.join(CACHE, "run-%d" % os.getpid())
    os.makedirs(scratch, exist_ok=True)
    evidence_path = os.path.join(EVID, prop + ".json")
    status = {"violations": [], "inconclusive": [], "known": []}
    try:
        irpath, ir_s, log = build_ir(prop, spec.PACKAGES, scratch)
        if irpath is None:
            status["inconclusive"].append("IR generation failed (does /repo build?): " + log[-400:])
            return finish(prop, tier, seed, spec, [], status, t_start, {}, evidence_path)
        from ir import IR
        _IR = IR(irpath)
        os.remove(irpath)
        # harness functions must exist
        for o in obs:
            if o["harness"] not in _IR.funcs:
                status["inconclusive"].append("harness %s not found in IR" % o["harness"])
        pre = getattr(spec, "PRECHECK", None)
        if pre is not None:
            srcs = ""
            for d, _, files in os.walk(HARNESS):
                for f in files:
                    if f.endswith(".go"):
                        srcs += open(os.path.join(d, f)).read()
            for pb in pre(_IR, srcs):
                status["inconclusive"].append("precheck: " + pb)
        if status["inconclusive"]:
            return finish(prop, tier, seed, spec, [], status, t_start, {}, evidence_path)
        time_limit = getattr(spec, "TIME_LIMIT_S", {}).get(tier, 420 if tier == "quick" else 3600)
        sto = getattr(spec, "SOLVER_TIMEOUT_S", {}).get(tier, 60 if tier == "quick" else 600)
        nvec = 2 if tier == "quick" else 6
        tasks = [{"ob": o, "time_limit_s": o.get("time_limit_s", time_limit), "solver_timeout_s": sto, "want_vectors": nvec, "seed": seed}
                 for o in obs]
        results = run_parallel(tasks)
        kf = {f["id"]: f for f in known_findings() if f.get("property") == prop}
        # ---- collect candidate counterexamples and validation vectors
        native_cases = []
        case_meta = []
        for o, r in zip(obs, results):
            if "error" in r:
                status["inconclusive"].append("%s: engine error %s" % (o["name"], r["error"]))
                continue
            for b in r["bad_paths"]:
                if b["kind"] == "panic" and "model" in b:
                    native_cases.append({"harness": o["harness"], "values": b["model"], "params": o.get("params", {})})
                    case_meta.append(("panic", o, b))
                else:
                    status["inconclusive"].append("%s: path ended %s: %s" % (o["name"], b["kind"], b["info"]))
            seen_sites = set()
            for a in r["asserts"]:
                if a["verdict"] == "violated":
                    if a["site"] in seen_sites:
                        continue
                    seen_sites.add(a["site"])
                    native_cases.append({"harness": o["harness"], "values": a["model"], "params": o.get("params", {})})
                    case_meta.append(("cex", o, a))
                elif a["verdict"] == "unknown":
                    status["inconclusive"].append("%s: solver unknown at %s (%s)" % (o["name"], a["site"], a["name"]))
            if not any(a["verdict"] in ("holds", "holds(concrete)", "violated") for a in r["asserts"]):
                status["inconclusive"].append("%s: vacuous, no assertion was reached" % o["name"])
            for w in o.get("reach", []):
                if not r["reached"].get(w):
                    status["inconclusive"].append("%s: vacuous, reachability witness %r not reached" % (o["name"], w))
            for v in r.get("vectors", []):
                native_cases.append({"harness": o["harness"], "values": v, "params": o.get("params", {})})
                case_meta.append(("vec", o, v))
        validated = 0
        disagreements = []
        if native_cases:
            nat, logs = native_run(native_cases, scratch)
            # engine concrete runs for the validation vectors
            vec_tasks, vec_idx = [], []
            for i, (kind, o, x) in enumerate(case_meta):
                if kind == "vec":
                    vec_tasks.append({"ob": o, "time_limit_s": 300, "solver_timeout_s": 30, "vector": x})
                    vec_idx.append(i)
            conc = []
            if vec_tasks:
                conc = run_parallel(vec_tasks)
            for i, cr in zip(vec_idx, conc):
                n = nat[i]
                o = case_meta[i][1]
                if "error" in n or "error" in cr:
                    disagreements.append({"obligation": o["name"], "native": n, "engine": cr.get("error")})
                    continue
                ce = cr["concrete"]
                eng_out = {"skipped": ce["outcome"] == "assume_false", "failures": sorted(ce["failures"]), "observed": ce["observed"],
                           "panic": ce["outcome"] == "panic"}
                nat_out = {"skipped": bool(n.get("skipped")), "failures": sorted(n.get("failures") or []),
                           "observed": n.get("observed") or [], "panic": "panic" in n}
                if eng_out == nat_out and ce["outcome"] in ("returned", "assume_false", "panic", "assert_failed"):
                    validated += 1
                else:
                    disagreements.append({"obligation": o["name"], "native": nat_out, "engine": eng_out, "engine_outcome": ce["outcome"],
                                          "vector": case_meta[i][2]})
            for i, (kind, o, x) in enumerate(case_meta):
                if kind == "vec":
                    continue
                n = nat[i]
                # a failure recorded natively before a later Assume stopped the run still reproduces the violation: the engine
                # reports at the assertion site, and symbols drawn after it are not in the model (they default to zero natively)
                reproduced = ("error" not in n) and (
                    (kind == "cex" and x["name"] in (n.get("failures") or [])) or (kind == "panic" and "panic" in n and not n.get("skipped")))
                rp = os.path.join(EVID, "replays", "%s_%s_%s_%d.json" % (
                    prop, re.sub(r"\W+", "_", o["name"])[:24], hashlib.sha1((o["name"] + json.dumps(o.get("params", {}))).encode()).hexdigest()[:8], i))
                os.makedirs(os.path.dirname(rp), exist_ok=True)
                json.dump({"property": prop, "obligation": o["name"], "harness": o["harness"], "params": o.get("params", {}),
                           "values": native_cases[i]["values"], "what": x.get("name") or x.get("info"), "native_result": n,
                           "reproduced": reproduced}, open(rp, "w"), indent=1)
                if reproduced:
                    fid = o.get("known_finding")
                    if fid and fid in kf and kf[fid].get("status") == "known":
                        status["known"].append((fid, kf[fid].get("what", ""), rp))
                    else:
                        status["violations"].append((o["name"], x.get("name") or x.get("info"), rp))
                else:
                    status["inconclusive"].append("%s: counterexample for %r did not reproduce natively (encoding mismatch), see %s"
                                                  % (o["name"], x.get("name") or x.get("info"), rp))
        if disagreements:
            status["inconclusive"].append("translator validation: %d native/engine disagreements" % len(disagreements))
        extra = {"ir_s": round(ir_s, 1), "validated": validated, "disagreements": disagreements[:5], "src_hash": _IR.src_hash}
        return finish(prop, tier, seed, spec, list(zip(obs, results)), status, t_start, extra, evidence_path)
    finally:
        shutil.rmtree(scratch, ignore_errors=True)


def finish(prop, tier, seed, spec, obres, status, t_start, extra, evidence_path):
    obl_samples = []
    states = transitions = nass = ndis = nq = 0
    solver_s = 0.0
    funcs = set()
    for o, r in obres:
        if "error" in r:
            obl_samples.append({"obligation": o["name"], "error": r["error"]})
            continue
        held = sum(1 for a in r["asserts"] if a["verdict"] in ("holds", "holds(concrete)"))
        viol = sum(1 for a in r["asserts"] if a["verdict"] == "violated")
        nass += len(r["asserts"])
        ndis += held
        states += sum(r["path_kinds"].values())
        transitions += r["stats"]["instrs"]
        nq += r["solver_queries"]
        solver_s += r["solver_s"]
        funcs.update(r["functions"])
        names = {}
        for a in r["asserts"]:
            d = names.setdefault(a["name"], {"holds": 0, "violated": 0, "unknown": 0})
            d["holds" if a["verdict"].startswith("holds") else ("violated" if a["verdict"] == "violated" else "unknown")] += 1
        obl_samples.append({"obligation": o["name"], "harness": o["harness"].split(".")[-1], "bounds": o.get("bounds", ""),
                            "params": o.get("params", {}), "paths": r["path_kinds"], "assertions": names,
                            "symbolic_queries_unsat": sum(1 for a in r["asserts"] if a["verdict"] == "holds"),
                            "forks": r["stats"]["forks"], "merges": r["stats"]["merges"], "fork_sites": r["fork_sites"],
                            "solver_queries": r["solver_queries"], "solver_s": r["solver_s"], "wall_s": r["wall_s"],
                            "keccak_applications": r["keccak_apps"], "reached": r["reached"],
                            "known_finding": o.get("known_finding")})
    nviol = len(status["violations"])
    ev = {
        "property_id": prop, "tier": tier, "seed": seed, "level": "model_checking",
        "coverage": {
            "states": max(states, 1) if obres else 0, "transitions": max(transitions, 1) if obres else 0,
            "traces_validated_against_impl": extra.get("validated", 0),
            "samples": obl_samples or [{"note": "no obligation ran", "inconclusive": status["inconclusive"]}],
            "obligations": nass, "discharged": ndis,
            "explanation": "bounded symbolic execution of the go/ssa form of the real functions; states = symbolic paths, "
                           "transitions = SSA instructions interpreted; every assertion instance is one solver query "
                           "(path condition AND NOT assertion) or a concrete evaluation on a fully concrete path",
            "functions_encoded": sorted(funcs), "solver_queries": nq, "solver_s": round(solver_s, 2),
            "solver": "z3 %s (z3py, in-process, incremental)" % z3_version(),
            "ir_generation_s": extra.get("ir_s"), "src_hash": extra.get("src_hash"),
            "translator_disagreements": extra.get("disagreements", []),
            "inconclusive": status["inconclusive"][:20],
            "known_findings_reported": [k[0] for k in status["known"]],
            "bounds": getattr(spec, "BOUNDS", ""), "outside_claim": getattr(spec, "OUTSIDE", ""),
        },
        "assumptions": getattr(spec, "ASSUMPTIONS", []),
        "wall_s": round(time.time() - t_start, 1),
        "violations": nviol,
    }
    os.makedirs(os.path.dirname(evidence_path), exist_ok=True)
    json.dump(ev, open(evidence_path, "w"), indent=1, default=str)
    for fid, what, rp in status["known"]:
        print("KNOWN-FINDING: property=%s %s %s (replay=%s)" % (prop, fid, what, rp))
    for name, what, rp in status["violations"]:
        print("VIOLATION property=%s replay=%s" % (prop, rp))
        print("  obligation=%s assertion=%s" % (name, what))
    if status["violations"]:
        return 1
    if status["inconclusive"]:
        seen_m = []
        for m in status["inconclusive"]:
            if m not in seen_m:
                seen_m.append(m)
        for m in seen_m[:20]:
            print("INCONCLUSIVE property=%s reason=%s" % (prop, m))
        return 2
    print("OK property=%s tier=%s obligations=%d assertion_instances=%d discharged=%d paths=%d solver_queries=%d solver_s=%.1f validated=%d wall=%.0fs"
          % (prop, tier, len(obres), nass, ndis, states, nq, solver_s, extra.get("validated", 0), time.time() - t_start))
    return 0


def z3_version():
    import z3
    return z3.get_version_string()


def replay(path):
    d = json.load(open(path))
    scratch = os.path.join(CACHE, "run-%d" % os.getpid())
    os.makedirs(scratch, exist_ok=True)
    try:
        nat, logs = native_run([{"harness": d["harness"], "values": d["values"], "params": d.get("params", {})}], scratch)
        print(json.dumps(nat[0], indent=1))
        n = nat[0]
        if n.get("failures") or "panic" in n:
            print("REPRODUCED: %s" % (n.get("failures") or n.get("panic")))
            return 1
        print("not reproduced")
        return 0
    finally:
        shutil.rmtree(scratch, ignore_errors=True)


def main():
    ap = argparse.ArgumentParser()
    sub = ap.add_subparsers(dest="cmd")
    c = sub.add_parser("check")
    c.add_argument("prop")
    c.add_argument("--tier", default=os.environ.get("VERIF_TIER", "quick"))
    c.add_argument("--only", nargs="*")
    r = sub.add_parser("replay")
    r.add_argument("path")
    a = ap.parse_args()
    if a.cmd == "check":
        sys.exit(check(a.prop, a.tier, a.only))
    if a.cmd == "replay":
        sys.exit(replay(a.path))
    ap.print_help()
    sys.exit(2)


if __name__ == "__main__":
    main()
