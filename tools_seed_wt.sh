#!/bin/bash
# usage: tools_seed.sh <seed-id e.g. C16-a> <property> <agent worktree>   (confirm a seeded change, store it, run the check against it)
id=$1; prop=$2; wt=$3
export GOFLAGS=-mod=mod GOPROXY=off
d=/verif/seeded/$id; mkdir -p $d
cp $wt/OUT/patch.diff $wt/OUT/demo_test.go $wt/OUT/meta.json $d/ 2>/dev/null
dir=$(python3 -c "import json;print(json.load(open('$d/meta.json')).get('demo_dir',''))" 2>/dev/null)
[ -z "$dir" ] && dir=$(head -1 $d/demo_test.go | sed 's#// dir: ##')
cd $wt && git checkout -q -- . && git apply $d/patch.diff || { echo "PATCH DOES NOT APPLY"; exit 1; }
cp $d/demo_test.go $wt/$dir/zz_seed_demo_test.go
tn=$(grep -o "func Test[A-Za-z0-9_]*" $d/demo_test.go | head -1 | sed 's/func //')
echo "== with patch: build"; go build ./... 2>&1 | tail -3
echo "== with patch: demo (expect FAIL)"; go test -vet=off -count=1 -run "$tn" ./$dir 2>&1 | tail -3
rm $wt/$dir/zz_seed_demo_test.go
echo "== with patch: package tests (expect ok)"; go test -vet=off -count=1 ./$dir/... 2>&1 | grep -v "no test files" | tail -4
git checkout -q -- .
cp $d/demo_test.go $wt/$dir/zz_seed_demo_test.go
echo "== without patch: demo (expect ok)"; go test -vet=off -count=1 -run "$tn" ./$dir 2>&1 | tail -2
rm $wt/$dir/zz_seed_demo_test.go
echo "== check against the seeded change"
cd $wt && git apply $d/patch.diff && (cd /verif && VERIF_REPO=$wt timeout 3000 python3-vt run.py check $prop 2>&1 | grep -v conda | cut -c1-220 | grep -v "^  " | head -6; echo "check exit=${PIPESTATUS[0]}")
cd $wt && git checkout -q -- .

