#!/bin/bash
# usage: tools_seed_repo.sh <seed-id> <property>   : apply the stored seeded change to /repo, run the check, undo it
id=$1; prop=$2
git -C /repo status --short | grep -q . && { echo "/repo not clean"; exit 1; }
git -C /repo apply /verif/seeded/$id/patch.diff || { echo "PATCH DOES NOT APPLY"; exit 1; }
(cd /verif && timeout 3000 python3-vt run.py check $prop 2>&1 | grep -v conda | cut -c1-200 | grep -v "^  " | head -4; echo "check exit=${PIPESTATUS[0]}")
git -C /repo checkout -- .
git -C /repo status --short | head -2
