#!/bin/bash
# usage: tools_mut.sh <name> <check-id> <file> <python-regex-sub-old> <new>   (development aid: seeded-edit sensitivity test)
set -e
name=$1; prop=$2; file=$3; old=$4; new=$5
wt=/tmp/wt_$name; VD=${VERIFDIR:-/verif}
git -C /repo worktree remove --force $wt 2>/dev/null || true
git -C /repo worktree add -q --detach $wt HEAD
python3 - "$wt/$file" "$old" "$new" <<'PY'
import sys
p,old,new=sys.argv[1:4]
s=open(p).read()
assert s.count(old)>=1, "pattern not found"
s=s.replace(old,new,1)
open(p,'w').write(s)
PY
git -C $wt diff --stat | tail -1
VERIF_REPO=$wt python3-vt $VD/run.py check $prop ${TIER:+--tier $TIER} ${ONLY:+--only $ONLY} | grep -v "^  " | head -${LINES_OUT:-8}
echo "exit=${PIPESTATUS[0]}"
git -C /repo worktree remove --force $wt
