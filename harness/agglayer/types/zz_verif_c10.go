package types

import (
	"math/big"

	"github.com/agglayer/aggkit/internal/zzverif"
	"github.com/ethereum/go-ethereum/common"
)

func zzC10Exit(metaLen int) *BridgeExit {
	amt := common.Hash(zzverif.Hash("amount"))
	be := &BridgeExit{LeafType: LeafType(zzverif.U8("leafType")), TokenInfo: &TokenInfo{OriginNetwork: zzverif.U32("origNet"), OriginTokenAddress: zzverif.Addr("origAddr")},
		DestinationNetwork: zzverif.U32("destNet"), DestinationAddress: zzverif.Addr("destAddr"), Amount: new(big.Int).SetBytes(amt[:])}
	if metaLen > 0 {
		be.Metadata = zzverif.Bytes("metaHash", metaLen)
	}
	return be
}

// zzC10SameExit: the fields of a bridge exit that its hash covers (a nil amount counts as zero; the metadata field holds the
// metadata hash and both exits of a pair have the same metadata length here).
func zzC10SameExit(a, b *BridgeExit) bool {
	if a.LeafType != b.LeafType || a.TokenInfo.OriginNetwork != b.TokenInfo.OriginNetwork || a.TokenInfo.OriginTokenAddress != b.TokenInfo.OriginTokenAddress ||
		a.DestinationNetwork != b.DestinationNetwork || a.DestinationAddress != b.DestinationAddress || a.Amount.Cmp(b.Amount) != 0 || len(a.Metadata) != len(b.Metadata) {
		return false
	}
	for i := range a.Metadata {
		if a.Metadata[i] != b.Metadata[i] {
			return false
		}
	}
	return true
}

func zzC10SameIndex(a, b *GlobalIndex) bool {
	if a.MainnetFlag != b.MainnetFlag || a.LeafIndex != b.LeafIndex {
		return false
	}
	return a.MainnetFlag || a.RollupIndex == b.RollupIndex // the rollup index of a mainnet index is not part of the encoded index
}

func zzC10Cert(nb, ni, metaLen int, withParams bool) *Certificate {
	c := &Certificate{NetworkID: zzverif.U32("networkID"), Height: zzverif.U64("height"), PrevLocalExitRoot: zzverif.Hash("prevLER"), NewLocalExitRoot: zzverif.Hash("newLER"),
		Metadata: zzverif.Hash("metadata")}
	for i := 0; i < nb; i++ {
		c.BridgeExits = append(c.BridgeExits, zzC10Exit(metaLen))
	}
	for i := 0; i < ni; i++ {
		gi := &GlobalIndex{MainnetFlag: zzverif.Bool("giMainnet"), RollupIndex: zzverif.U32("giRollup"), LeafIndex: zzverif.U32("giLeaf")}
		if zzverif.Param("GIFULL") == 1 {
			// full-length encodings of the global index only (8 or 9 significant bytes); GIFULL=0: every length
			zzverif.Assume(gi.MainnetFlag || gi.RollupIndex >= 1<<24)
		}
		l1 := &L1InfoTreeLeaf{L1InfoTreeIndex: zzverif.U32("l1idx"), RollupExitRoot: zzverif.Hash("rer"), MainnetExitRoot: zzverif.Hash("mer"),
			Inner: &L1InfoTreeLeafInner{GlobalExitRoot: zzverif.Hash("ger"), BlockHash: zzverif.Hash("bh"), Timestamp: zzverif.U64("ts")}}
		var p1, p2 MerkleProof
		p1.Root, p2.Root = zzverif.Hash("root1"), zzverif.Hash("root2")
		p1.Proof[0], p2.Proof[31] = zzverif.Hash("sib1"), zzverif.Hash("sib2")
		c.ImportedBridgeExits = append(c.ImportedBridgeExits, &ImportedBridgeExit{BridgeExit: zzC10Exit(metaLen), GlobalIndex: gi,
			ClaimData: &ClaimFromMainnnet{L1Leaf: l1, ProofLeafMER: &p1, ProofGERToL1Root: &p2}})
	}
	if withParams {
		c.AggchainData = &AggchainDataProof{AggchainParams: zzverif.Hash("aggchainParams")}
	}
	return c
}

// ZZVerif_C10_Sensitive: two certificates of the same shape with arbitrary contents. If their commitments (PP scheme, FEP scheme
// or certificate identity) are equal - equality decided under Keccak collision-freeness - then every field the scheme covers
// is equal; i.e. changing any covered field changes the commitment.
func ZZVerif_C10_Sensitive() {
	nb, ni, ml := zzverif.Param("NB"), zzverif.Param("NI"), zzverif.Param("ML")
	scheme := zzverif.Param("SCHEME")
	withParams := zzverif.Param("PARAMS") == 1
	a, b := zzC10Cert(nb, ni, ml, withParams), zzC10Cert(nb, ni, ml, withParams)
	var ha, hb common.Hash
	switch scheme {
	case 0:
		ha, hb = a.PPHashToSign(), b.PPHashToSign()
	case 1:
		ha, hb = a.FEPHashToSign(), b.FEPHashToSign()
	default:
		ha, hb = a.Hash(), b.Hash()
	}
	same := zzverif.SameCommitment(ha, hb)
	covered := a.NewLocalExitRoot == b.NewLocalExitRoot
	for i := 0; i < ni; i++ {
		covered = covered && zzC10SameIndex(a.ImportedBridgeExits[i].GlobalIndex, b.ImportedBridgeExits[i].GlobalIndex)
	}
	if scheme >= 1 {
		covered = covered && a.Height == b.Height
		for i := 0; i < ni; i++ {
			covered = covered && zzC10SameExit(a.ImportedBridgeExits[i].BridgeExit, b.ImportedBridgeExits[i].BridgeExit)
		}
	}
	if scheme == 1 && withParams {
		covered = covered && a.AggchainData.(*AggchainDataProof).AggchainParams == b.AggchainData.(*AggchainDataProof).AggchainParams
	}
	if scheme == 2 {
		covered = covered && a.NetworkID == b.NetworkID && a.PrevLocalExitRoot == b.PrevLocalExitRoot
		for i := 0; i < nb; i++ {
			covered = covered && zzC10SameExit(a.BridgeExits[i], b.BridgeExits[i])
		}
		for i := 0; i < ni; i++ {
			covered = covered && zzverif.SameCommitment(a.ImportedBridgeExits[i].ClaimData.Hash(), b.ImportedBridgeExits[i].ClaimData.Hash())
		}
	}
	zzverif.Assert("equal commitments only for equal covered fields (any change of a covered field changes the commitment)", !same || covered)
	zzverif.Assert("equal covered fields give equal commitments", !covered || same)
	zzverif.Reach("compared")
}
