package grpc

import (
	"context"
	"math/big"

	v1nodetypes "buf.build/gen/go/agglayer/agglayer/protocolbuffers/go/agglayer/node/types/v1"
	v1 "buf.build/gen/go/agglayer/agglayer/protocolbuffers/go/agglayer/node/v1"
	v1types "buf.build/gen/go/agglayer/interop/protocolbuffers/go/agglayer/interop/types/v1"
	"github.com/agglayer/aggkit/agglayer/types"
	aggkitgrpc "github.com/agglayer/aggkit/grpc"
	"github.com/agglayer/aggkit/internal/zzverif"
	treetypes "github.com/agglayer/aggkit/tree/types"
	"github.com/ethereum/go-ethereum/common"
	"google.golang.org/grpc"
)

type zzSubmission struct {
	got *v1.SubmitCertificateRequest
	id  []byte
}

func (s *zzSubmission) SubmitCertificate(ctx context.Context, in *v1.SubmitCertificateRequest, opts ...grpc.CallOption) (*v1.SubmitCertificateResponse, error) {
	s.got = in
	return &v1.SubmitCertificateResponse{CertificateId: &v1nodetypes.CertificateId{Value: &v1types.FixedBytes32{Value: s.id}}}, nil
}

func zzSymProof(tag string) (p treetypes.Proof) {
	// three arbitrary siblings (first, middle, last); the others are zero: every position is copied by the same loop
	p[0], p[13], p[31] = zzverif.Hash(tag), zzverif.Hash(tag), zzverif.Hash(tag)
	return
}

func zzSymExit(metaLen int, nilAmount bool) *types.BridgeExit {
	amt := common.Hash(zzverif.Hash("amount"))
	be := &types.BridgeExit{LeafType: types.LeafType(zzverif.Int("leafType", 0, 1)), TokenInfo: &types.TokenInfo{OriginNetwork: zzverif.U32("origNet"), OriginTokenAddress: zzverif.Addr("origAddr")},
		DestinationNetwork: zzverif.U32("destNet"), DestinationAddress: zzverif.Addr("destAddr"), Amount: new(big.Int).SetBytes(amt[:]), Metadata: zzverif.Bytes("metaHash", metaLen)}
	if nilAmount {
		be.Amount = nil
	}
	return be
}

func zzSymL1Leaf() *types.L1InfoTreeLeaf {
	return &types.L1InfoTreeLeaf{L1InfoTreeIndex: zzverif.U32("l1idx"), RollupExitRoot: zzverif.Hash("rer"), MainnetExitRoot: zzverif.Hash("mer"),
		Inner: &types.L1InfoTreeLeafInner{GlobalExitRoot: zzverif.Hash("ger"), BlockHash: zzverif.Hash("bh"), Timestamp: zzverif.U64("ts")}}
}

func zzSymCert() *types.Certificate {
	c := &types.Certificate{NetworkID: zzverif.U32("networkID"), Height: zzverif.U64("height"), PrevLocalExitRoot: zzverif.Hash("prevLER"), NewLocalExitRoot: zzverif.Hash("newLER"),
		Metadata: zzverif.Hash("metadata"), L1InfoTreeLeafCount: zzverif.U32("leafCount"), CustomChainData: zzverif.Bytes("custom", 3),
		AggchainData: &types.AggchainDataSignature{Signature: zzverif.Bytes("signature", 65)}}
	c.BridgeExits = []*types.BridgeExit{zzSymExit(32, false), zzSymExit(0, true)}
	c.ImportedBridgeExits = []*types.ImportedBridgeExit{
		{BridgeExit: zzSymExit(32, false), GlobalIndex: &types.GlobalIndex{MainnetFlag: true, RollupIndex: 0, LeafIndex: zzverif.U32("giLeaf")},
			ClaimData: &types.ClaimFromMainnnet{ProofLeafMER: &types.MerkleProof{Root: zzverif.Hash("r1"), Proof: zzSymProof("p1")},
				ProofGERToL1Root: &types.MerkleProof{Root: zzverif.Hash("r2"), Proof: zzSymProof("p2")}, L1Leaf: zzSymL1Leaf()}},
		{BridgeExit: zzSymExit(0, false), GlobalIndex: &types.GlobalIndex{MainnetFlag: false, RollupIndex: zzverif.U32("giRollup"), LeafIndex: zzverif.U32("giLeaf")},
			ClaimData: &types.ClaimFromRollup{ProofLeafLER: &types.MerkleProof{Root: zzverif.Hash("r3"), Proof: zzSymProof("p3")},
				ProofLERToRER:    &types.MerkleProof{Root: zzverif.Hash("r4"), Proof: zzSymProof("p4")},
				ProofGERToL1Root: &types.MerkleProof{Root: zzverif.Hash("r5"), Proof: zzSymProof("p5")}, L1Leaf: zzSymL1Leaf()}},
	}
	return c
}

func zzEq32(b *v1types.FixedBytes32, h common.Hash) bool {
	if b == nil || len(b.Value) != 32 {
		return false
	}
	return common.BytesToHash(b.Value) == h
}

func zzEq20(b *v1types.FixedBytes20, a common.Address) bool {
	if b == nil || len(b.Value) != 20 {
		return false
	}
	return common.BytesToAddress(b.Value) == a
}

func zzSameExit(p *v1types.BridgeExit, be *types.BridgeExit) bool {
	ok := p != nil && p.DestNetwork == be.DestinationNetwork && zzEq20(p.DestAddress, be.DestinationAddress) && p.TokenInfo != nil &&
		p.TokenInfo.OriginNetwork == be.TokenInfo.OriginNetwork && zzEq20(p.TokenInfo.OriginTokenAddress, be.TokenInfo.OriginTokenAddress)
	if !ok {
		return false
	}
	if (be.LeafType == types.LeafTypeAsset) != (p.LeafType == v1types.LeafType_LEAF_TYPE_TRANSFER) || (be.LeafType == types.LeafTypeMessage) != (p.LeafType == v1types.LeafType_LEAF_TYPE_MESSAGE) {
		return false
	}
	if be.Amount == nil {
		if p.Amount != nil {
			return false
		}
	} else if !zzEq32(p.Amount, common.BigToHash(be.Amount)) {
		return false
	}
	if len(be.Metadata) == 0 {
		return p.Metadata == nil
	}
	return zzEq32(p.Metadata, common.BytesToHash(be.Metadata))
}

func zzSameProof(p *v1types.MerkleProof, m *types.MerkleProof) bool {
	if p == nil || !zzEq32(p.Root, m.Root) || len(p.Siblings) != 32 {
		return false
	}
	for i := 0; i < 32; i++ {
		if !zzEq32(p.Siblings[i], m.Proof[i]) {
			return false
		}
	}
	return true
}

func zzSameL1Leaf(p *v1types.L1InfoTreeLeafWithContext, l *types.L1InfoTreeLeaf) bool {
	return p != nil && p.L1InfoTreeIndex == l.L1InfoTreeIndex && zzEq32(p.Rer, l.RollupExitRoot) && zzEq32(p.Mer, l.MainnetExitRoot) && p.Inner != nil &&
		zzEq32(p.Inner.GlobalExitRoot, l.Inner.GlobalExitRoot) && zzEq32(p.Inner.BlockHash, l.Inner.BlockHash) && p.Inner.Timestamp == l.Inner.Timestamp
}

// ZZVerif_C10_Wire: every field covered by the certificate's identity or by its signed commitment arrives unchanged in the
// message the real client hands to the submission service.
func ZZVerif_C10_Wire() {
	c := zzSymCert()
	sub := &zzSubmission{id: zzverif.Bytes("certID", 32)}
	a := &AgglayerGRPCClient{cfg: aggkitgrpc.DefaultConfig(), submissionService: sub}
	id, err := a.SendCertificate(context.Background(), c)
	zzverif.Assert("sent", err == nil && sub.got != nil && sub.got.Certificate != nil)
	if err != nil || sub.got == nil || sub.got.Certificate == nil {
		return
	}
	zzverif.Assert("returned id is the service's answer", id == common.BytesToHash(sub.id))
	p := sub.got.Certificate
	zzverif.Assert("network, height, leaf count", p.NetworkId == c.NetworkID && p.Height == c.Height && p.L1InfoTreeLeafCount != nil && *p.L1InfoTreeLeafCount == c.L1InfoTreeLeafCount)
	zzverif.Assert("exit roots and metadata", zzEq32(p.PrevLocalExitRoot, c.PrevLocalExitRoot) && zzEq32(p.NewLocalExitRoot, c.NewLocalExitRoot) && zzEq32(p.Metadata, c.Metadata))
	zzverif.Assert("custom chain data", len(p.CustomChainData) == 3 && p.CustomChainData[0] == c.CustomChainData[0] && p.CustomChainData[2] == c.CustomChainData[2])
	sig, ok := p.AggchainData.Data.(*v1types.AggchainData_Signature)
	zzverif.Assert("signature", ok && sig.Signature != nil && len(sig.Signature.Value) == 65)
	if ok && sig.Signature != nil && len(sig.Signature.Value) == 65 {
		s := c.AggchainData.(*types.AggchainDataSignature).Signature
		same := true
		for i := 0; i < 65; i++ {
			if sig.Signature.Value[i] != s[i] {
				same = false
			}
		}
		zzverif.Assert("signature bytes unchanged", same)
	}
	zzverif.Assert("bridge exits", len(p.BridgeExits) == 2 && zzSameExit(p.BridgeExits[0], c.BridgeExits[0]) && zzSameExit(p.BridgeExits[1], c.BridgeExits[1]))
	zzverif.Assert("imported exits: count", len(p.ImportedBridgeExits) == 2)
	if len(p.ImportedBridgeExits) != 2 {
		return
	}
	for k, pi := range p.ImportedBridgeExits {
		ci := c.ImportedBridgeExits[k]
		zzverif.Assert("imported exit: bridge exit", zzSameExit(pi.BridgeExit, ci.BridgeExit))
		// C19: the wire carries the contract's 256-bit global index value
		var want common.Hash
		if ci.GlobalIndex.MainnetFlag {
			want[23] = 1
		} else {
			r := ci.GlobalIndex.RollupIndex
			want[24], want[25], want[26], want[27] = byte(r>>24), byte(r>>16), byte(r>>8), byte(r)
		}
		l := ci.GlobalIndex.LeafIndex
		want[28], want[29], want[30], want[31] = byte(l>>24), byte(l>>16), byte(l>>8), byte(l)
		zzverif.Assert("imported exit: global index value (contract bit layout)", zzEq32(pi.GlobalIndex, want))
		switch cd := ci.ClaimData.(type) {
		case *types.ClaimFromMainnnet:
			mw, _ := pi.Claim.(*v1types.ImportedBridgeExit_Mainnet)
			var m *v1types.ClaimFromMainnet
			if mw != nil {
				m = mw.Mainnet
			}
			zzverif.Assert("mainnet claim: proofs and L1 leaf", m != nil && zzSameProof(m.ProofLeafMer, cd.ProofLeafMER) && zzSameProof(m.ProofGerL1Root, cd.ProofGERToL1Root) && zzSameL1Leaf(m.L1Leaf, cd.L1Leaf))
		case *types.ClaimFromRollup:
			rw, _ := pi.Claim.(*v1types.ImportedBridgeExit_Rollup)
			var r *v1types.ClaimFromRollup
			if rw != nil {
				r = rw.Rollup
			}
			zzverif.Assert("rollup claim: proofs and L1 leaf", r != nil && zzSameProof(r.ProofLeafLer, cd.ProofLeafLER) && zzSameProof(r.ProofLerRer, cd.ProofLERToRER) &&
				zzSameProof(r.ProofGerL1Root, cd.ProofGERToL1Root) && zzSameL1Leaf(r.L1Leaf, cd.L1Leaf))
		}
	}
	zzverif.Reach("end")
}
