package bridgeservice

import (
	"net/http"
	"strconv"
	"time"

	"github.com/agglayer/aggkit/internal/zzverif"
	"github.com/agglayer/aggkit/internal/zzverifhttp"
	"github.com/agglayer/aggkit/l1infotreesync"
	"github.com/agglayer/aggkit/log"
)

// ZZVerif_C12_IndexHandler: the /l1-info-tree-index answer obtained through the real handler. Two L1 info updates in blocks with
// arbitrary non-decreasing numbers; update i names a mainnet exit root with last deposit index c1[i] and carries the rollup
// exit root of a verify-batches event whose local exit root has last deposit index c2[i] (both arbitrary, non-decreasing).
// The node of network NET is asked for network Q and deposit DC: a 200 answer carries an index whose exit roots cover the
// deposit; when no index covers it, or the network is neither 0 nor NET, the answer is an error.
func ZZVerif_C12_IndexHandler() {
	net := uint32(zzverif.Param("NET"))
	q := uint32(zzverif.Param("Q"))
	dc := zzverif.Param("DC")
	info := &zzC12Info{}
	l1, l2 := &zzC12Bridge{}, &zzC12Bridge{}
	const n = 2
	var c1, c2 [n]uint32
	prevB, p1, p2 := uint64(1), uint32(0), uint32(0)
	for i := 0; i < n; i++ {
		b := uint64(zzverif.Int("block", 1, 4))
		c1[i], c2[i] = uint32(zzverif.U8("lastDepositL1")), uint32(zzverif.U8("lastDepositL2"))
		zzverif.Assume(b >= prevB && c1[i] >= p1 && c2[i] >= p2)
		prevB, p1, p2 = b, c1[i], c2[i]
		mer, ler, rer := zzTag(1, i), zzTag(2, i), zzTag(3, i)
		l1.set(mer, c1[i])
		l2.set(ler, c2[i])
		info.vb = append(info.vb, l1infotreesync.VerifyBatches{BlockNumber: b, BlockPosition: uint64(i), RollupID: net, ExitRoot: ler, RollupExitRoot: rer})
		info.leaves = append(info.leaves, l1infotreesync.L1InfoTreeLeaf{BlockNumber: b, BlockPosition: uint64(i), L1InfoTreeIndex: uint32(i), MainnetExitRoot: mer, RollupExitRoot: rer})
	}
	s := &BridgeService{logger: log.GetDefaultLogger(), meter: zzMeter{}, readTimeout: time.Minute, networkID: net, l1InfoTree: info, bridgeL1: l1, bridgeL2: l2}
	c := zzverifhttp.HTTPGet(networkIDParam, strconv.Itoa(int(q)), depositCountParam, strconv.Itoa(dc))
	s.L1InfoTreeIndexForBridgeHandler(c)
	var idx uint32
	code := zzverifhttp.HTTPResult(c, &idx)
	zzverif.Assert("an answer is written", code != 0)
	cnt := c1
	if q != 0 {
		cnt = c2
	}
	if q != 0 && q != net {
		zzverif.Assert("foreign network: an error answer", code != http.StatusOK)
		zzverif.Reach("foreign")
		return
	}
	covered := cnt[n-1] >= uint32(dc)
	if code == http.StatusOK {
		zzverif.Assert("the index answered names a leaf whose exit roots cover the deposit", int(idx) < n && cnt[idx] >= uint32(dc))
		zzverif.Reach("found")
	} else {
		zzverif.Assert("an error answer only when no leaf covers the deposit", !covered)
		zzverif.Reach("notcovered")
	}
}
