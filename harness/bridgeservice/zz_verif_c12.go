package bridgeservice

import (
	"context"
	"errors"

	"github.com/agglayer/aggkit/db"
	"github.com/agglayer/aggkit/internal/zzverif"
	"github.com/agglayer/aggkit/l1infotreesync"
	"github.com/agglayer/aggkit/log"
	tree "github.com/agglayer/aggkit/tree/types"
	"github.com/ethereum/go-ethereum/common"
)

// zzC12Info answers like the real L1 info tree syncer (C08/C11): leaves in index order with non-decreasing block numbers
// (several per block allowed), verified-batch events of the rollup in order, lookups by block and by rollup exit root.
type zzC12Info struct {
	L1InfoTreer
	leaves []l1infotreesync.L1InfoTreeLeaf
	vb     []l1infotreesync.VerifyBatches
}

func (s *zzC12Info) GetLastInfo() (*l1infotreesync.L1InfoTreeLeaf, error) {
	if len(s.leaves) == 0 {
		return nil, db.ErrNotFound
	}
	l := s.leaves[len(s.leaves)-1]
	return &l, nil
}
func (s *zzC12Info) GetFirstInfo() (*l1infotreesync.L1InfoTreeLeaf, error) {
	if len(s.leaves) == 0 {
		return nil, db.ErrNotFound
	}
	l := s.leaves[0]
	return &l, nil
}
func (s *zzC12Info) GetFirstInfoAfterBlock(b uint64) (*l1infotreesync.L1InfoTreeLeaf, error) {
	for i := range s.leaves {
		if s.leaves[i].BlockNumber >= b {
			l := s.leaves[i]
			return &l, nil
		}
	}
	return nil, db.ErrNotFound
}
func (s *zzC12Info) GetLastVerifiedBatches(id uint32) (*l1infotreesync.VerifyBatches, error) {
	if len(s.vb) == 0 {
		return nil, db.ErrNotFound
	}
	v := s.vb[len(s.vb)-1]
	return &v, nil
}
func (s *zzC12Info) GetFirstVerifiedBatches(id uint32) (*l1infotreesync.VerifyBatches, error) {
	if len(s.vb) == 0 {
		return nil, db.ErrNotFound
	}
	v := s.vb[0]
	return &v, nil
}
func (s *zzC12Info) GetFirstVerifiedBatchesAfterBlock(id uint32, b uint64) (*l1infotreesync.VerifyBatches, error) {
	for i := range s.vb {
		if s.vb[i].BlockNumber >= b {
			v := s.vb[i]
			return &v, nil
		}
	}
	return nil, db.ErrNotFound
}
func (s *zzC12Info) GetFirstL1InfoWithRollupExitRoot(r common.Hash) (*l1infotreesync.L1InfoTreeLeaf, error) {
	for i := range s.leaves {
		if s.leaves[i].RollupExitRoot == r {
			l := s.leaves[i]
			return &l, nil
		}
	}
	return nil, db.ErrNotFound
}

// zzC12Bridge answers GetRootByLER like the real bridge syncer (C01): the exit root with tag t is the root after deposit
// count[t] (index of the last leaf it contains).
type zzC12Bridge struct {
	Bridger
	roots  []common.Hash
	counts []uint32
}

func (b *zzC12Bridge) set(r common.Hash, c uint32) {
	b.roots = append(b.roots, r)
	b.counts = append(b.counts, c)
}

func (b *zzC12Bridge) GetRootByLER(ctx context.Context, ler common.Hash) (*tree.Root, error) {
	for i := range b.roots {
		if b.roots[i] == ler {
			return &tree.Root{Hash: ler, Index: b.counts[i]}, nil
		}
	}
	return nil, db.ErrNotFound
}

func zzTag(kind, i int) common.Hash { return common.Hash{byte(kind), byte(i + 1)} }

// ZZVerif_C12_IndexL1: N L1 info leaves in blocks with arbitrary non-decreasing numbers (several per block allowed), each naming
// a mainnet exit root whose last deposit index is arbitrary non-decreasing. For an arbitrary deposit count the lookup returns
// an index whose mainnet exit root contains that deposit, or an error; it returns an error when no leaf covers the deposit.
func ZZVerif_C12_IndexL1() {
	n := zzverif.Param("N")
	maxBlk := zzverif.Param("MAXBLK")
	ctx := context.Background()
	info := &zzC12Info{}
	br := &zzC12Bridge{}
	prevB, prevC := uint64(1), uint32(0)
	cnt := make([]uint32, n)
	for i := 0; i < n; i++ {
		b := uint64(zzverif.Int("block", 1, maxBlk))
		c := uint32(zzverif.U8("lastDeposit"))
		zzverif.Assume(b >= prevB && c >= prevC)
		prevB, prevC = b, c
		mer := zzTag(1, i)
		if i > 0 && zzverif.Bool("sameMER") { // an update that only changed the rollup exit root
			mer = info.leaves[i-1].MainnetExitRoot
			c = cnt[i-1]
			prevC = c
		}
		cnt[i] = c
		br.set(mer, c)
		info.leaves = append(info.leaves, l1infotreesync.L1InfoTreeLeaf{BlockNumber: b, BlockPosition: uint64(i), L1InfoTreeIndex: uint32(i), MainnetExitRoot: mer})
	}
	s := &BridgeService{logger: log.GetDefaultLogger(), l1InfoTree: info, bridgeL1: br, networkID: 7}
	dc := uint32(zzverif.U8("depositCount"))
	idx, err := s.getFirstL1InfoTreeIndexForL1Bridge(ctx, dc)
	covered := cnt[n-1] >= dc
	if err == nil {
		zzverif.Assert("returned index names a leaf whose mainnet exit root contains the deposit", int(idx) < n && cnt[idx] >= dc)
		zzverif.Reach("found")
	} else {
		zzverif.Assert("error only when no leaf covers the deposit yet", !covered && errors.Is(err, ErrNotOnL1Info))
		zzverif.Reach("notcovered")
	}
	zzverif.Assert("a covering leaf exists: an index is returned", !covered || err == nil)
}

// ZZVerif_C12_IndexL2: the same for an L2 bridge, through the verified-batch events of the rollup: each event names a local exit
// root (last deposit index arbitrary non-decreasing) and the rollup exit root it produced; an L1 info leaf carries that rollup
// exit root (the protocol's assumption stated in the code). The index returned names a leaf whose rollup exit root contains a
// local exit root that contains the deposit.
func ZZVerif_C12_IndexL2() {
	n := zzverif.Param("N")
	maxBlk := zzverif.Param("MAXBLK")
	ctx := context.Background()
	info := &zzC12Info{}
	br := &zzC12Bridge{}
	prevB, prevC := uint64(1), uint32(0)
	cnt := make([]uint32, n)
	for i := 0; i < n; i++ {
		b := uint64(zzverif.Int("block", 1, maxBlk))
		c := uint32(zzverif.U8("lastDeposit"))
		zzverif.Assume(b >= prevB && c >= prevC)
		prevB, prevC = b, c
		cnt[i] = c
		ler, rer := zzTag(2, i), zzTag(3, i)
		br.set(ler, c)
		info.vb = append(info.vb, l1infotreesync.VerifyBatches{BlockNumber: b, BlockPosition: uint64(i), RollupID: 7, ExitRoot: ler, RollupExitRoot: rer})
		// the leaf that carries this rollup exit root, preceded by a leaf with another rollup exit root
		info.leaves = append(info.leaves, l1infotreesync.L1InfoTreeLeaf{BlockNumber: b, L1InfoTreeIndex: uint32(2 * i), RollupExitRoot: zzTag(4, i)})
		info.leaves = append(info.leaves, l1infotreesync.L1InfoTreeLeaf{BlockNumber: b, L1InfoTreeIndex: uint32(2*i + 1), RollupExitRoot: rer})
	}
	s := &BridgeService{logger: log.GetDefaultLogger(), l1InfoTree: info, bridgeL2: br, networkID: 7}
	dc := uint32(zzverif.U8("depositCount"))
	idx, err := s.getFirstL1InfoTreeIndexForL2Bridge(ctx, dc)
	covered := cnt[n-1] >= dc
	if err == nil {
		ok := idx%2 == 1 && int(idx/2) < n && cnt[idx/2] >= dc
		zzverif.Assert("returned index names a leaf whose rollup exit root contains a local exit root containing the deposit", ok)
		zzverif.Reach("found")
	} else {
		zzverif.Assert("error only when no verified local exit root covers the deposit yet", !covered && errors.Is(err, ErrNotOnL1Info))
		zzverif.Reach("notcovered")
	}
	zzverif.Assert("a covering leaf exists: an index is returned", !covered || err == nil)
}
