package bridgeservice

import (
	"context"
	"errors"
	"net/http"
	"strconv"
	"time"

	bridgetypes "github.com/agglayer/aggkit/bridgeservice/types"
	"github.com/agglayer/aggkit/internal/zzverif"
	"github.com/agglayer/aggkit/internal/zzverifhttp"
	"github.com/agglayer/aggkit/l1infotreesync"
	"github.com/agglayer/aggkit/lastgersync"
	"github.com/agglayer/aggkit/log"
	"github.com/agglayer/aggkit/tree"
	treetypes "github.com/agglayer/aggkit/tree/types"
	"github.com/ethereum/go-ethereum/common"
	"github.com/ethereum/go-ethereum/crypto"
	"go.opentelemetry.io/otel/metric"
)

var (
	zzZero     [33]common.Hash
	zzZeroDone bool
)

func zzZeroHashes() (z [33]common.Hash) {
	if zzZeroDone {
		return zzZero
	}
	for h := 1; h <= 32; h++ {
		z[h] = crypto.Keccak256Hash(z[h-1][:], z[h-1][:])
	}
	zzZero, zzZeroDone = z, true
	return
}

// zzMerkle: root of the height-32 tree whose first leaves are given, and the proof of position idx (reference routine; the
// real trees are shown to serve exactly this in C01/C08/C11).
func zzMerkle(leaves []common.Hash, idx uint32) (common.Hash, treetypes.Proof) {
	z := zzZeroHashes()
	var proof treetypes.Proof
	level := append([]common.Hash{}, leaves...)
	pos := idx
	for h := 0; h < 32; h++ {
		sib := pos ^ 1
		if int(sib) < len(level) {
			proof[h] = level[sib]
		} else {
			proof[h] = z[h]
		}
		next := make([]common.Hash, 0, (len(level)+1)/2)
		for i := 0; i < len(level); i += 2 {
			l := level[i]
			r := z[h]
			if i+1 < len(level) {
				r = level[i+1]
			}
			next = append(next, crypto.Keccak256Hash(l[:], r[:]))
		}
		level = next
		pos >>= 1
	}
	if len(level) == 0 {
		return z[32], proof
	}
	return level[0], proof
}

// zzExitTree: an append-only exit tree as its syncer serves it (C01): proof of a deposit under any of its historical roots.
type zzExitTree struct {
	Bridger
	leaves []common.Hash
}

func (t *zzExitTree) rootOf(n int) common.Hash {
	r, _ := zzMerkle(t.leaves[:n], 0)
	return r
}
func (t *zzExitTree) GetProof(ctx context.Context, dc uint32, root common.Hash) (treetypes.Proof, error) {
	for n := int(dc) + 1; n <= len(t.leaves); n++ {
		if zzverif.SameCommitment(t.rootOf(n), root) {
			_, p := zzMerkle(t.leaves[:n], dc)
			return p, nil
		}
	}
	return treetypes.Proof{}, errors.New("not found")
}

// zzProofInfo: the L1 info syncer as it serves leaves and the rollup exit tree (C08/C11).
type zzProofInfo struct {
	L1InfoTreer
	leaves  []l1infotreesync.L1InfoTreeLeaf
	rollups [][]common.Hash // rollups[j]: the leaves (local exit roots by rollup index) of the rollup exit tree named by leaf j
}

func (s *zzProofInfo) GetInfoByIndex(ctx context.Context, i uint32) (*l1infotreesync.L1InfoTreeLeaf, error) {
	if int(i) >= len(s.leaves) {
		return nil, errors.New("not found")
	}
	l := s.leaves[i]
	return &l, nil
}
func (s *zzProofInfo) GetLocalExitRoot(ctx context.Context, net uint32, rer common.Hash) (common.Hash, error) {
	if net == 0 {
		return common.Hash{}, errors.New("network 0 is not a rollup")
	}
	for j := range s.leaves {
		if zzverif.SameCommitment(s.leaves[j].RollupExitRoot, rer) && int(net-1) < len(s.rollups[j]) {
			return s.rollups[j][net-1], nil
		}
	}
	return common.Hash{}, errors.New("not found")
}
func (s *zzProofInfo) GetRollupExitTreeMerkleProof(ctx context.Context, net uint32, rer common.Hash) (treetypes.Proof, error) {
	if net == 0 {
		return tree.EmptyProof, nil
	}
	for j := range s.leaves {
		if zzverif.SameCommitment(s.leaves[j].RollupExitRoot, rer) && int(net-1) < len(s.rollups[j]) {
			_, p := zzMerkle(s.rollups[j], net-1)
			return p, nil
		}
	}
	return treetypes.Proof{}, errors.New("not found")
}

type zzMeter struct{ metric.Meter }
type zzCounter struct{ metric.Int64Counter }

func (zzMeter) Int64Counter(name string, o ...metric.Int64CounterOption) (metric.Int64Counter, error) {
	return zzCounter{}, nil
}
func (zzCounter) Add(ctx context.Context, n int64, o ...metric.AddOption) {}

func zzProofOf(p bridgetypes.Proof) (out treetypes.Proof) {
	for i := range p {
		out[i] = common.HexToHash(string(p[i]))
	}
	return
}

// ZZVerif_C12_ClaimProof: an L1 exit tree and the L2 exit tree of rollup NET with arbitrary leaves, two L1 info leaves naming
// successive roots of them (the rollup exit tree has arbitrary other rollups around NET). The real handler is asked for the
// claim proof of deposit DC of network Q under L1 info leaf IDX. If that leaf's exit roots cover the deposit the answer is 200
// and its proofs hash the bridge's leaf to the mainnet / local exit root, and the local exit root to the leaf's rollup exit
// root; otherwise the answer is an error.
func ZZVerif_C12_ClaimProof() {
	net := uint32(zzverif.Param("NET")) // the L2 network id of this node (>= 1)
	q := uint32(zzverif.Param("Q"))     // network id in the request: 0, NET or another
	idx := zzverif.Param("IDX")         // L1 info leaf in the request
	dc := zzverif.Param("DC")           // deposit count in the request
	l1 := &zzExitTree{leaves: []common.Hash{zzverif.Hash("l1leaf"), zzverif.Hash("l1leaf"), zzverif.Hash("l1leaf")}}
	l2 := &zzExitTree{leaves: []common.Hash{zzverif.Hash("l2leaf"), zzverif.Hash("l2leaf"), zzverif.Hash("l2leaf")}}
	for i := 0; i < 3; i++ {
		// a zero leaf is the same as no leaf (the contract never inserts one)
		zzverif.Assume(l1.leaves[i] != (common.Hash{}) && l2.leaves[i] != (common.Hash{}))
	}
	info := &zzProofInfo{}
	// leaf j covers j+1 deposits of L1 and j+1 deposits of L2
	for j := 0; j < 2; j++ {
		var rl []common.Hash
		for r := uint32(1); r <= net+1; r++ {
			if r == net {
				rl = append(rl, l2.rootOf(j+1))
			} else {
				rl = append(rl, zzverif.Hash("otherLER"))
			}
		}
		rer, _ := zzMerkle(rl, 0)
		info.rollups = append(info.rollups, rl)
		info.leaves = append(info.leaves, l1infotreesync.L1InfoTreeLeaf{BlockNumber: uint64(10 + j), L1InfoTreeIndex: uint32(j), MainnetExitRoot: l1.rootOf(j + 1),
			RollupExitRoot: rer, PreviousBlockHash: zzverif.Hash("parent"), Timestamp: zzverif.U64("ts"), GlobalExitRoot: zzverif.Hash("ger"), Hash: zzverif.Hash("leafHash")})
	}
	zzverif.Assume(!zzverif.SameCommitment(info.leaves[0].RollupExitRoot, info.leaves[1].RollupExitRoot))
	s := &BridgeService{logger: log.GetDefaultLogger(), meter: zzMeter{}, readTimeout: time.Minute, networkID: net, l1InfoTree: info, bridgeL1: l1, bridgeL2: l2}
	c := zzverifhttp.HTTPGet(networkIDParam, strconv.Itoa(int(q)), leafIndexParam, strconv.Itoa(idx), depositCountParam, strconv.Itoa(dc))
	s.ClaimProofHandler(c)
	var resp bridgetypes.ClaimProof
	code := zzverifhttp.HTTPResult(c, &resp)
	covered := idx < 2 && dc <= idx && (q == 0 || q == net)
	if !covered {
		zzverif.Assert("no covering leaf, unknown leaf or foreign network: an error answer", code != http.StatusOK && code != 0)
		zzverif.Reach("refused")
		return
	}
	zzverif.Assert("answer 200", code == http.StatusOK)
	if code != http.StatusOK {
		return
	}
	leaf := info.leaves[idx]
	zzverif.Assert("answer carries the requested L1 info leaf", resp.L1InfoTreeLeaf.L1InfoTreeIndex == uint32(idx) &&
		common.HexToHash(string(resp.L1InfoTreeLeaf.MainnetExitRoot)) == leaf.MainnetExitRoot && common.HexToHash(string(resp.L1InfoTreeLeaf.RollupExitRoot)) == leaf.RollupExitRoot &&
		common.HexToHash(string(resp.L1InfoTreeLeaf.GlobalExitRoot)) == leaf.GlobalExitRoot && resp.L1InfoTreeLeaf.BlockNumber == leaf.BlockNumber)
	pl, pr := zzProofOf(resp.ProofLocalExitRoot), zzProofOf(resp.ProofRollupExitRoot)
	if q == 0 {
		zzverif.Assert("L1 bridge: the proof hashes the bridge's leaf to the leaf's mainnet exit root", tree.CalculateRoot(l1.leaves[dc], pl, uint32(dc)) == leaf.MainnetExitRoot)
		zzverif.Reach("mainnet")
	} else {
		ler := tree.CalculateRoot(l2.leaves[dc], pl, uint32(dc))
		zzverif.Assert("L2 bridge: the proof hashes the bridge's leaf to the local exit root of that L1 info leaf", ler == l2.rootOf(idx+1))
		zzverif.Assert("L2 bridge: the second proof hashes that local exit root to the leaf's rollup exit root", tree.CalculateRoot(ler, pr, net-1) == leaf.RollupExitRoot)
		zzverif.Reach("rollup")
	}
}

type zzInjected struct {
	LastGERer
	indexes []uint32 // L1 info indexes whose global exit root is injected on L2 (ascending)
	gers    []common.Hash
}

func (z *zzInjected) GetFirstGERAfterL1InfoTreeIndex(ctx context.Context, at uint32) (lastgersync.GlobalExitRootInfo, error) {
	for i, x := range z.indexes {
		if x >= at {
			return lastgersync.GlobalExitRootInfo{GlobalExitRoot: z.gers[i], L1InfoTreeIndex: x}, nil
		}
	}
	return lastgersync.GlobalExitRootInfo{}, errors.New("not found")
}

// ZZVerif_C12_InjectedLeaf: four L1 info leaves with arbitrary contents, those of MASK injected on L2 (the injected-root index
// answers as C16 establishes). The real handler is asked for network Q and index IDX: for L1 it answers leaf IDX, for the L2
// network the leaf of the first injected root at or after IDX, and an error when there is none or the network is foreign.
func ZZVerif_C12_InjectedLeaf() {
	net := uint32(zzverif.Param("NET"))
	q := uint32(zzverif.Param("Q"))
	idx := zzverif.Param("IDX")
	mask := zzverif.Param("MASK")
	info := &zzProofInfo{}
	inj := &zzInjected{}
	for j := 0; j < 4; j++ {
		lf := l1infotreesync.L1InfoTreeLeaf{BlockNumber: uint64(10 + j), BlockPosition: uint64(zzverif.U8("pos")), L1InfoTreeIndex: uint32(j), MainnetExitRoot: zzverif.Hash("mer"),
			RollupExitRoot: zzverif.Hash("rer"), PreviousBlockHash: zzverif.Hash("parent"), Timestamp: zzverif.U64("ts"), GlobalExitRoot: zzverif.Hash("ger"), Hash: zzverif.Hash("leafHash")}
		info.leaves = append(info.leaves, lf)
		if mask>>j&1 == 1 {
			inj.indexes = append(inj.indexes, uint32(j))
			inj.gers = append(inj.gers, lf.GlobalExitRoot)
		}
	}
	s := &BridgeService{logger: log.GetDefaultLogger(), meter: zzMeter{}, readTimeout: time.Minute, networkID: net, l1InfoTree: info, injectedGERs: inj}
	c := zzverifhttp.HTTPGet(networkIDParam, strconv.Itoa(int(q)), leafIndexParam, strconv.Itoa(idx))
	s.InjectedL1InfoLeafHandler(c)
	var resp bridgetypes.L1InfoTreeLeafResponse
	code := zzverifhttp.HTTPResult(c, &resp)
	want := -1
	switch {
	case q == 0:
		if idx < 4 {
			want = idx
		}
	case q == net:
		for j := 3; j >= idx; j-- {
			if mask>>j&1 == 1 {
				want = j
			}
		}
	}
	if want < 0 {
		zzverif.Assert("nothing to answer (no such leaf, no injected root at or after the index, foreign network): an error answer", code != http.StatusOK && code != 0)
		zzverif.Reach("refused")
		return
	}
	zzverif.Assert("answer 200", code == http.StatusOK)
	lf := info.leaves[want]
	zzverif.Assert("the answer is the expected leaf, all fields", resp.L1InfoTreeIndex == uint32(want) && resp.BlockNumber == lf.BlockNumber && resp.BlockPosition == lf.BlockPosition &&
		resp.Timestamp == lf.Timestamp && common.HexToHash(string(resp.MainnetExitRoot)) == lf.MainnetExitRoot && common.HexToHash(string(resp.RollupExitRoot)) == lf.RollupExitRoot &&
		common.HexToHash(string(resp.GlobalExitRoot)) == lf.GlobalExitRoot && common.HexToHash(string(resp.PreviousBlockHash)) == lf.PreviousBlockHash &&
		common.HexToHash(string(resp.Hash)) == lf.Hash)
	zzverif.Reach("answered")
}
