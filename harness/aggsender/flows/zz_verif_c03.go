package flows

import (
	"context"
	"errors"
	"math/big"

	agglayertypes "github.com/agglayer/aggkit/agglayer/types"
	"github.com/agglayer/aggkit/aggsender/db"
	"github.com/agglayer/aggkit/aggsender/types"
	"github.com/agglayer/aggkit/bridgesync"
	"github.com/agglayer/aggkit/internal/zzverif"
	"github.com/agglayer/aggkit/l1infotreesync"
	"github.com/agglayer/aggkit/log"
	treetypes "github.com/agglayer/aggkit/tree/types"
	"github.com/ethereum/go-ethereum/common"
	"github.com/ethereum/go-ethereum/crypto"
)

// zzRefContract: DepositContractBase of the L2 bridge (see C01).
type zzRefContract struct {
	branch [32]common.Hash
	count  uint32
}

func (c *zzRefContract) addLeaf(leaf common.Hash) {
	node := leaf
	c.count++
	size := c.count
	for h := 0; h < 32; h++ {
		if (size>>h)&1 == 1 {
			c.branch[h] = node
			return
		}
		node = crypto.Keccak256Hash(c.branch[h][:], node[:])
	}
}

func (c *zzRefContract) getRoot() common.Hash {
	var node, zero common.Hash
	size := c.count
	for h := 0; h < 32; h++ {
		if (size>>h)&1 == 1 {
			node = crypto.Keccak256Hash(c.branch[h][:], node[:])
		} else {
			node = crypto.Keccak256Hash(node[:], zero[:])
		}
		zero = crypto.Keccak256Hash(zero[:], zero[:])
	}
	return node
}

// zzL2 is the L2 bridge syncer as the aggsender sees it; its answers follow the contract proved for the real store in C01/C04:
// events of a block range in chain order, exit root by deposit count = contract root, "not processed" beyond the last block.
type zzL2 struct {
	bridges []bridgesync.Bridge
	claims  []bridgesync.Claim
	roots   []common.Hash
	last    uint64
	net     uint32
}

func (l *zzL2) GetBridgesAndClaims(ctx context.Context, from, to uint64) ([]bridgesync.Bridge, []bridgesync.Claim, error) {
	if to > l.last {
		return nil, nil, errors.New("block not processed")
	}
	var bs []bridgesync.Bridge
	var cs []bridgesync.Claim
	for _, b := range l.bridges {
		if b.BlockNum >= from && b.BlockNum <= to {
			bs = append(bs, b)
		}
	}
	for _, c := range l.claims {
		if c.BlockNum >= from && c.BlockNum <= to {
			cs = append(cs, c)
		}
	}
	return bs, cs, nil
}

func (l *zzL2) GetExitRootByIndex(ctx context.Context, index uint32) (common.Hash, error) {
	if int(index) >= len(l.roots) {
		return common.Hash{}, errors.New("not found")
	}
	return l.roots[index], nil
}
func (l *zzL2) GetLastProcessedBlock(ctx context.Context) (uint64, error)      { return l.last, nil }
func (l *zzL2) OriginNetwork() uint32                                          { return l.net }
func (l *zzL2) WaitForSyncerToCatchUp(ctx context.Context, block uint64) error { return nil }

type zzStorage struct {
	db.AggSenderStorage
	last     *types.CertificateHeader
	byHeight map[uint64]*types.CertificateHeader
}

func (s *zzStorage) GetLastSentCertificateHeader() (*types.CertificateHeader, error) {
	return s.last, nil
}
func (s *zzStorage) GetCertificateHeaderByHeight(h uint64) (*types.CertificateHeader, error) {
	return s.byHeight[h], nil
}

type zzLER struct{ ler common.Hash }

func (l *zzLER) GetLastLocalExitRoot() (common.Hash, error) { return l.ler, nil }

type zzL1Info struct{}

func (zzL1Info) GetLatestFinalizedL1InfoRoot(ctx context.Context) (*treetypes.Root, *l1infotreesync.L1InfoTreeLeaf, error) {
	return nil, nil, errors.New("unused")
}
func (zzL1Info) GetFinalizedL1InfoTreeData(ctx context.Context) (treetypes.Proof, *l1infotreesync.L1InfoTreeLeaf, *treetypes.Root, error) {
	return treetypes.Proof{}, nil, nil, errors.New("unused")
}
func (zzL1Info) GetProofForGER(ctx context.Context, ger, root common.Hash) (*l1infotreesync.L1InfoTreeLeaf, treetypes.Proof, error) {
	return &l1infotreesync.L1InfoTreeLeaf{GlobalExitRoot: ger}, treetypes.Proof{}, nil
}
func (zzL1Info) CheckIfClaimsArePartOfFinalizedL1InfoTree(r *treetypes.Root, claims []bridgesync.Claim) error {
	return nil
}

func zzFlowBridge(num, pos uint64, dc uint32, ml int) bridgesync.Bridge {
	amt := common.Hash(zzverif.Hash("amount"))
	return bridgesync.Bridge{BlockNum: num, BlockPos: pos, LeafType: zzverif.U8("leafType") & 1, OriginNetwork: zzverif.U32("origNet"),
		OriginAddress: zzverif.Addr("origAddr"), DestinationNetwork: zzverif.U32("destNet"), DestinationAddress: zzverif.Addr("destAddr"),
		Amount: new(big.Int).SetBytes(amt[:]), Metadata: zzverif.Bytes("metadata", ml), DepositCount: dc}
}

func zzFlowClaim(num, pos uint64) bridgesync.Claim {
	amt := common.Hash(zzverif.Hash("cAmount"))
	gi := bridgesync.GenerateGlobalIndex(zzverif.Bool("cMainnet"), zzverif.U32("cRollup"), zzverif.U32("cLeaf"))
	return bridgesync.Claim{BlockNum: num, BlockPos: pos, GlobalIndex: gi, OriginNetwork: zzverif.U32("cOrigNet"), OriginAddress: zzverif.Addr("cOrigAddr"),
		DestinationAddress: zzverif.Addr("cDestAddr"), DestinationNetwork: zzverif.U32("cDestNet"), Amount: new(big.Int).SetBytes(amt[:]),
		MainnetExitRoot: zzverif.Hash("cMER"), RollupExitRoot: zzverif.Hash("cRER"), GlobalExitRoot: zzverif.Hash("cGER"),
		Metadata: zzverif.Bytes("cMeta", 2), IsMessage: zzverif.Bool("cMsg")}
}

// ZZVerif_C03_Certificate: an L2 history of NBLK blocks (0..1 bridge and 0..1 claim each); a previous certificate that is absent,
// settled or in error; the real base flow chooses the range and builds the certificate. The certificate's new exit root is
// the previous exit root's tree with the hashes of its bridge exits appended in order; the exits are the events of the range;
// the metadata encodes the range.
func ZZVerif_C03_Certificate() {
	nblk := zzverif.Param("NBLK")
	ml := zzverif.Param("ML")
	ctx := context.Background()
	l2 := &zzL2{net: zzverif.U32("networkID"), last: uint64(nblk)}
	ref := &zzRefContract{}
	emptyRoot := ref.getRoot()
	zzverif.Assert("the constant used for an empty exit tree is the root of the empty tree", emptyRoot == emptyLER)
	// rootAfterBlock[i] = contract root after all deposits of blocks <= i (index 0: empty tree); refAfterBlock: contract state
	rootAfterBlock := make([]common.Hash, nblk+1)
	refAfterBlock := make([]zzRefContract, nblk+1)
	rootAfterBlock[0], refAfterBlock[0] = emptyRoot, *ref
	for i := 1; i <= nblk; i++ {
		pos := uint64(0)
		if zzverif.Bool("hasBridge") {
			b := zzFlowBridge(uint64(i), pos, ref.count, ml)
			bb := b
			ref.addLeaf((&bb).Hash())
			l2.bridges = append(l2.bridges, b)
			l2.roots = append(l2.roots, ref.getRoot())
			pos++
		}
		if zzverif.Bool("hasClaim") {
			l2.claims = append(l2.claims, zzFlowClaim(uint64(i), pos))
		}
		rootAfterBlock[i], refAfterBlock[i] = ref.getRoot(), *ref
	}
	st := &zzStorage{byHeight: map[uint64]*types.CertificateHeader{}}
	f := NewBaseFlow(log.GetDefaultLogger(), l2, st, zzL1Info{}, &zzLER{}, NewBaseFlowConfigDefault())
	// previous certificate
	prevTo := 0 // blocks already covered by settled certificates
	expHeight := uint64(0)
	switch zzverif.Param("PREV") {
	case 1: // settled certificate covering blocks 1..prevTo
		prevTo = zzverif.Int("prevTo", 1, nblk)
		h := zzverif.U64("prevHeight") >> 2
		st.last = &types.CertificateHeader{Height: h, Status: agglayertypes.Settled, FromBlock: 1, ToBlock: uint64(prevTo), NewLocalExitRoot: rootAfterBlock[prevTo]}
		expHeight = h + 1
	case 2: // certificate in error that covered prevTo+1..errTo ; the one before it (if any) is settled
		prevTo = zzverif.Int("prevTo", 0, nblk-1)
		errTo := zzverif.Int("errTo", prevTo+1, nblk)
		h := zzverif.U64("prevHeight") >> 2
		if prevTo == 0 {
			h = 0
		} else {
			zzverif.Assume(h >= 1)
			st.byHeight[h-1] = &types.CertificateHeader{Height: h - 1, Status: agglayertypes.Settled, FromBlock: 1, ToBlock: uint64(prevTo), NewLocalExitRoot: rootAfterBlock[prevTo]}
		}
		st.last = &types.CertificateHeader{Height: h, Status: agglayertypes.InError, FromBlock: uint64(prevTo + 1), ToBlock: uint64(errTo), RetryCount: int(zzverif.U8("retries") >> 1),
			NewLocalExitRoot: rootAfterBlock[errTo]}
		if zzverif.Bool("errHasPrevLER") {
			x := rootAfterBlock[prevTo]
			st.last.PreviousLocalExitRoot = &x
		}
		expHeight = h
	}
	params, err := f.GetCertificateBuildParamsInternal(ctx, types.CertificateTypePP)
	if prevTo >= nblk {
		zzverif.Assert("nothing new: no certificate", errors.Is(err, errNoNewBlocks))
		zzverif.Reach("nonew")
		return
	}
	zzverif.Assert("build params", err == nil && params != nil)
	if err != nil {
		return
	}
	zzverif.Assert("range starts after the last settled block and ends at the last synced block", params.FromBlock == uint64(prevTo+1) && params.ToBlock == uint64(nblk))
	cert, err := f.BuildCertificate(ctx, params, st.last, true)
	zzverif.Assert("certificate built", err == nil && cert != nil)
	if err != nil {
		return
	}
	zzverif.Reach("built")
	zzverif.Assert("height", cert.Height == expHeight)
	zzverif.Assert("network id", cert.NetworkID == l2.net)
	zzverif.Assert("previous exit root = root of the tree after the last settled block", cert.PrevLocalExitRoot == rootAfterBlock[prevTo])
	// fold the exits' hashes over the contract state whose root is the previous exit root
	fold := refAfterBlock[prevTo]
	for _, be := range cert.BridgeExits {
		fold.addLeaf(be.Hash())
	}
	zzverif.Assert("new exit root = previous tree + hashes of the bridge exits, in order", fold.getRoot() == cert.NewLocalExitRoot)
	zzverif.Observe("newLER", cert.NewLocalExitRoot)
	// exits are exactly the bridges of the range, fields preserved
	k := 0
	for _, b := range l2.bridges {
		if b.BlockNum > uint64(prevTo) {
			ok := k < len(cert.BridgeExits)
			if ok {
				be := cert.BridgeExits[k]
				bb := b
				ok = be.LeafType.Uint8() == b.LeafType && be.TokenInfo.OriginNetwork == b.OriginNetwork && be.TokenInfo.OriginTokenAddress == b.OriginAddress &&
					be.DestinationNetwork == b.DestinationNetwork && be.DestinationAddress == b.DestinationAddress && be.Amount.Cmp(b.Amount) == 0 &&
					be.Hash() == (&bb).Hash()
			}
			zzverif.Assert("bridge exit k is bridge k of the range, fields preserved, same leaf hash", ok)
			k++
		}
	}
	zzverif.Assert("no other bridge exit", len(cert.BridgeExits) == k)
	k = 0
	for _, c := range l2.claims {
		if c.BlockNum > uint64(prevTo) {
			ok := k < len(cert.ImportedBridgeExits)
			if ok {
				ie := cert.ImportedBridgeExits[k]
				m, r, l, _ := bridgesync.DecodeGlobalIndex(c.GlobalIndex)
				ok = ie.GlobalIndex.MainnetFlag == m && ie.GlobalIndex.RollupIndex == r && ie.GlobalIndex.LeafIndex == l &&
					ie.BridgeExit.TokenInfo.OriginNetwork == c.OriginNetwork && ie.BridgeExit.TokenInfo.OriginTokenAddress == c.OriginAddress &&
					ie.BridgeExit.DestinationNetwork == c.DestinationNetwork && ie.BridgeExit.DestinationAddress == c.DestinationAddress &&
					ie.BridgeExit.Amount.Cmp(c.Amount) == 0 && (ie.BridgeExit.LeafType == agglayertypes.LeafTypeMessage) == c.IsMessage
			}
			zzverif.Assert("imported exit k is claim k of the range, fields preserved", ok)
			k++
		}
	}
	zzverif.Assert("no other imported exit", len(cert.ImportedBridgeExits) == k)
	meta, err := types.NewCertificateMetadataFromHash(cert.Metadata)
	zzverif.Assert("metadata encodes the block range", err == nil && meta.FromBlock == params.FromBlock && uint64(meta.Offset) == params.ToBlock-params.FromBlock && meta.CreatedAt == params.CreatedAt)
}

// ZZVerif_C03_Metadata: the metadata word round-trips first block, span, creation time and type.
func ZZVerif_C03_Metadata() {
	from, to := zzverif.U64("from"), zzverif.U64("to")
	zzverif.Assume(from <= to && to-from < 1<<32)
	created, ct := zzverif.U32("createdAt"), zzverif.U8("certType")
	m := types.NewCertificateMetadata(from, uint32(to-from), created, ct)
	back, err := types.NewCertificateMetadataFromHash(m.ToHash())
	zzverif.Assert("decodes", err == nil && back != nil)
	if err == nil {
		zzverif.Assert("round trip", back.FromBlock == from && back.FromBlock+uint64(back.Offset) == to && back.CreatedAt == created && back.CertType == ct && back.Version == types.CertificateMetadataV2)
	}
}

// ZZVerif_C03_Exits: NB bridges with arbitrary fields (origin addresses may coincide, metadata of ML bytes each, arbitrary and
// independent) are converted by the real flow code; exit k carries bridge k's fields, the hash of bridge k's own metadata, and
// hashes to bridge k's leaf.
func ZZVerif_C03_Exits() {
	nb, ml := zzverif.Param("NB"), zzverif.Param("ML")
	f := NewBaseFlow(log.GetDefaultLogger(), &zzL2{}, &zzStorage{}, zzL1Info{}, &zzLER{}, NewBaseFlowConfigDefault())
	var bridges []bridgesync.Bridge
	for i := 0; i < nb; i++ {
		bridges = append(bridges, zzFlowBridge(uint64(i+1), 0, uint32(i), ml))
	}
	exits := f.getBridgeExits(bridges)
	zzverif.Assert("one exit per bridge", len(exits) == nb)
	if len(exits) != nb {
		return
	}
	for k := range bridges {
		b, be := bridges[k], exits[k]
		bb := b
		want := []byte(nil)
		if len(b.Metadata) > 0 {
			want = crypto.Keccak256(b.Metadata)
		}
		same := len(be.Metadata) == len(want)
		for i := 0; same && i < len(want); i++ {
			same = be.Metadata[i] == want[i]
		}
		zzverif.Assert("exit k carries the hash of bridge k's own metadata", same)
		zzverif.Assert("exit k: fields of bridge k and the same leaf hash", be.LeafType.Uint8() == b.LeafType && be.TokenInfo.OriginNetwork == b.OriginNetwork &&
			be.TokenInfo.OriginTokenAddress == b.OriginAddress && be.DestinationNetwork == b.DestinationNetwork && be.DestinationAddress == b.DestinationAddress &&
			be.Amount.Cmp(b.Amount) == 0 && be.Hash() == (&bb).Hash())
	}
	zzverif.Reach("end")
}
