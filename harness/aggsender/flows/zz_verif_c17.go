package flows

import (
	"errors"

	"github.com/agglayer/aggkit/aggsender/types"
	"github.com/agglayer/aggkit/bridgesync"
	"github.com/agglayer/aggkit/internal/zzverif"
	"github.com/agglayer/aggkit/log"
)

func zzBuildParams(nb, nc int, span uint64) *types.CertificateBuildParams {
	if bm, cm := zzverif.Param("BMASK"), zzverif.Param("CMASK"); bm != 0 || cm != 0 {
		// concrete layout: range [1, 1+span], a bridge in block i+1 iff bit i of BMASK, a claim iff bit i of CMASK
		p := &types.CertificateBuildParams{FromBlock: 1, ToBlock: 1 + span, CreatedAt: zzverif.U32("createdAt"),
			CertificateType: types.CertificateType(zzverif.Int("certType", 1, 2))}
		for i := 0; i <= int(span); i++ {
			if bm>>i&1 == 1 {
				k := len(p.Bridges)
				p.Bridges = append(p.Bridges, bridgesync.Bridge{BlockNum: uint64(i + 1), BlockPos: 0, DepositCount: uint32(100 + k), Metadata: make([]byte, 1000*(k+1))})
			}
			if cm>>i&1 == 1 {
				k := len(p.Claims)
				p.Claims = append(p.Claims, bridgesync.Claim{BlockNum: uint64(i + 1), BlockPos: 1, OriginNetwork: uint32(200 + k), Metadata: make([]byte, 700*(k+1))})
			}
		}
		return p
	}
	from := zzverif.U64("from")
	zzverif.Assume(from >= 1 && from < 1<<40)
	p := &types.CertificateBuildParams{FromBlock: from, ToBlock: from + span, CreatedAt: zzverif.U32("createdAt"),
		CertificateType: types.CertificateType(zzverif.Int("certType", 1, 2))}
	prev := from
	for i := 0; i < nb; i++ {
		bn := zzverif.U64("bBlock")
		zzverif.Assume(bn >= prev && bn <= from+span)
		prev = bn
		p.Bridges = append(p.Bridges, bridgesync.Bridge{BlockNum: bn, BlockPos: uint64(i), DepositCount: uint32(100 + i), Metadata: make([]byte, 1000*(i+1))})
	}
	prev = from
	for i := 0; i < nc; i++ {
		bn := zzverif.U64("cBlock")
		zzverif.Assume(bn >= prev && bn <= from+span)
		prev = bn
		p.Claims = append(p.Claims, bridgesync.Claim{BlockNum: bn, BlockPos: uint64(50 + i), OriginNetwork: uint32(200 + i), Metadata: make([]byte, 700*(i+1))})
	}
	return p
}

// ZZVerif_C17_LimitCertSize: the size limiter keeps the first block, returns a range that fits the limit or is a single block,
// and the range is maximal (one more block would not fit); the events are exactly those of the kept blocks.
func ZZVerif_C17_LimitCertSize() {
	nb, nc := zzverif.Param("NB"), zzverif.Param("NC")
	span := uint64(zzverif.Param("SPAN"))
	p := zzBuildParams(nb, nc, span)
	max := uint(zzverif.U32("maxCertSize"))
	f := &baseFlow{log: log.GetDefaultLogger(), cfg: BaseFlowConfig{MaxCertSize: max}}
	r, err := f.limitCertSize(p)
	zzverif.Assert("limiter succeeds", err == nil && r != nil)
	if err != nil || r == nil {
		return
	}
	zzverif.Assert("same first block", r.FromBlock == p.FromBlock)
	zzverif.Assert("range not extended", r.ToBlock <= p.ToBlock && r.ToBlock >= r.FromBlock)
	if max == 0 {
		zzverif.Assert("no limit: unchanged", r.ToBlock == p.ToBlock)
		return
	}
	zzverif.Assert("fits the limit, or is a single block", r.EstimatedSize() <= max || r.ToBlock == r.FromBlock)
	if r.ToBlock < p.ToBlock {
		zzverif.Reach("cut")
		bigger, err := p.Range(p.FromBlock, r.ToBlock+1)
		zzverif.Assert("maximal: one more block would exceed the limit", err == nil && bigger.EstimatedSize() > max)
	}
	k := 0
	for _, b := range p.Bridges {
		if b.BlockNum <= r.ToBlock {
			zzverif.Assert("kept bridge present at its place", k < len(r.Bridges) && r.Bridges[k].DepositCount == b.DepositCount)
			k++
		}
	}
	zzverif.Assert("no other bridge", len(r.Bridges) == k)
	k = 0
	for _, c := range p.Claims {
		if c.BlockNum <= r.ToBlock {
			zzverif.Assert("kept claim present at its place", k < len(r.Claims) && r.Claims[k].OriginNetwork == c.OriginNetwork)
			k++
		}
	}
	zzverif.Assert("no other claim", len(r.Claims) == k)
}

// ZZVerif_C17_MaxL2Block: the last-L2-block limiter ends the range at min(ToBlock, max) with the events of the kept blocks, or
// refuses in the documented cases.
func ZZVerif_C17_MaxL2Block() {
	nb, nc := zzverif.Param("NB"), zzverif.Param("NC")
	span := uint64(zzverif.Param("SPAN"))
	p := zzBuildParams(nb, nc, span)
	if zzverif.Bool("isRetry") {
		p.RetryCount = 1
		p.LastSentCertificate = &types.CertificateHeader{FromBlock: p.FromBlock}
	}
	max := zzverif.U64("maxL2Block")
	allowResize := zzverif.Bool("allowResizeRetry")
	requireBridge := zzverif.Bool("requireOneBridge")
	l := NewMaxL2BlockNumberLimiter(max, log.GetDefaultLogger(), allowResize, requireBridge)
	r, err := l.AdaptCertificate(p)
	if max == 0 || p.ToBlock <= max {
		zzverif.Assert("limit not reached: unchanged", err == nil && r == p)
		return
	}
	if p.IsARetry() && !allowResize {
		zzverif.Assert("retry that may not be resized: refused", errors.Is(err, ErrMaxL2BlockNumberExceededInARetryCert))
		return
	}
	if p.FromBlock > max {
		zzverif.Assert("range entirely above the limit: complete", errors.Is(err, ErrComplete) && r == nil)
		return
	}
	// cut to [From, max]
	nbKept, ncKept := 0, 0
	for _, b := range p.Bridges {
		if b.BlockNum <= max {
			nbKept++
		}
	}
	for _, c := range p.Claims {
		if c.BlockNum <= max {
			ncKept++
		}
	}
	if requireBridge && nbKept == 0 {
		zzverif.Assert("no bridge left although one is required: refused", err != nil && r == nil && (ncKept > 0 || errors.Is(err, ErrComplete)))
		return
	}
	zzverif.Reach("cut")
	zzverif.Assert("cut succeeds", err == nil && r != nil)
	if err != nil || r == nil {
		return
	}
	zzverif.Assert("same first block, ends at the configured last block", r.FromBlock == p.FromBlock && r.ToBlock == max)
	zzverif.Assert("exactly the events of the kept blocks", len(r.Bridges) == nbKept && len(r.Claims) == ncKept)
	for i := 0; i < nbKept && i < len(r.Bridges); i++ {
		zzverif.Assert("bridges in original order", r.Bridges[i].DepositCount == p.Bridges[i].DepositCount)
	}
	for i := 0; i < ncKept && i < len(r.Claims); i++ {
		zzverif.Assert("claims in original order", r.Claims[i].OriginNetwork == p.Claims[i].OriginNetwork)
	}
}
