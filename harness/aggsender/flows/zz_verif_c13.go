package flows

import (
	"context"
	"errors"

	"github.com/agglayer/aggkit/agglayer"
	agglayertypes "github.com/agglayer/aggkit/agglayer/types"
	aggsenderdb "github.com/agglayer/aggkit/aggsender/db"
	"github.com/agglayer/aggkit/aggsender/statuschecker"
	"github.com/agglayer/aggkit/aggsender/types"
	aggkitdb "github.com/agglayer/aggkit/db"
	"github.com/agglayer/aggkit/internal/zzverif"
	"github.com/agglayer/aggkit/log"
	"github.com/ethereum/go-ethereum/common"
)

// zzAgglayer is the Agglayer as the recovery code sees it: the latest settled header, the latest non-settled header
// (open or in error) and lookup by id.
type zzAgglayer struct {
	agglayer.AgglayerClientInterface
	settled, pending *agglayertypes.CertificateHeader
	all              []*agglayertypes.CertificateHeader
	// transient RPC failures: the next failSettled / failPending calls of the respective query fail
	failSettled, failPending int
}

func (a *zzAgglayer) GetLatestSettledCertificateHeader(ctx context.Context, n uint32) (*agglayertypes.CertificateHeader, error) {
	if a.failSettled > 0 {
		a.failSettled--
		return nil, errors.New("agglayer unreachable")
	}
	return a.settled, nil
}
func (a *zzAgglayer) GetLatestPendingCertificateHeader(ctx context.Context, n uint32) (*agglayertypes.CertificateHeader, error) {
	if a.failPending > 0 {
		a.failPending--
		return nil, errors.New("agglayer unreachable")
	}
	return a.pending, nil
}
func (a *zzAgglayer) GetCertificateHeader(ctx context.Context, id common.Hash) (*agglayertypes.CertificateHeader, error) {
	for _, h := range a.all {
		if h.CertificateID == id {
			return h, nil
		}
	}
	return nil, errors.New("certificate not found")
}

// zzTruth is one certificate of the ground-truth history kept by the model Agglayer.
type zzTruth struct {
	id, prevLER, newLER common.Hash
	from, to            uint64
	createdAt           uint32
	status              agglayertypes.CertificateStatus
}

func (t *zzTruth) header(height uint64, net uint32, withPrev bool) *agglayertypes.CertificateHeader {
	h := &agglayertypes.CertificateHeader{NetworkID: net, Height: height, CertificateID: t.id, NewLocalExitRoot: t.newLER, Status: t.status,
		Metadata: types.NewCertificateMetadata(t.from, uint32(t.to-t.from), t.createdAt, uint8(types.CertificateTypePP.ToInt())).ToHash()}
	if withPrev {
		p := t.prevLER
		h.PreviousLocalExitRoot = &p
	}
	return h
}

// local: the record the node's own send path stores after a successful submit.
func (t *zzTruth) local(height uint64, status agglayertypes.CertificateStatus) types.Certificate {
	p := t.prevLER
	s := "signed"
	return types.Certificate{Header: &types.CertificateHeader{Height: height, CertificateID: t.id, PreviousLocalExitRoot: &p, NewLocalExitRoot: t.newLER,
		FromBlock: t.from, ToBlock: t.to, Status: status, CreatedAt: t.createdAt, UpdatedAt: t.createdAt, CertType: types.CertificateTypePP,
		CertSource: types.CertificateSourceLocal}, SignedCertificate: &s}
}

func zzOpenStatus(name string) agglayertypes.CertificateStatus {
	switch zzverif.U8(name) % 3 {
	case 0:
		return agglayertypes.Pending
	case 1:
		return agglayertypes.Proven
	}
	return agglayertypes.Candidate
}

// ZZVerif_C13_Recover: the model Agglayer holds HIST settled certificates (contiguous block ranges, chained exit roots) and
// optionally a last certificate that is open or in error. The node's database is lost, behind by one certificate (crash between
// submit and store), on the same page with an older status, or contradicts the Agglayer. One pass of the start-up check runs on
// the real storage; afterwards the real flow code derives height, previous exit root and first block of the next certificate.
func ZZVerif_C13_Recover() {
	hist := zzverif.Param("HIST")   // settled certificates on the Agglayer
	last := zzverif.Param("LAST")   // 0 none, 1 open, 2 in error
	local := zzverif.Param("LOCAL") // 0 lost, 1 behind by one, 2 same page, 3 contradiction
	keep := zzverif.Param("KEEP") == 1
	ctx := context.Background()
	net := zzverif.U32("networkID")
	startLER := common.Hash(zzverif.Hash("startLER"))
	zzverif.Assume(startLER != (common.Hash{}))

	// ground truth
	n := hist
	if last != 0 {
		n++
	}
	chain := make([]*zzTruth, n)
	prevLER, nextFrom := startLER, uint64(1)
	for i := 0; i < n; i++ {
		span := uint64(zzverif.U32("span"))
		t := &zzTruth{id: zzverif.Hash("certID"), prevLER: prevLER, newLER: zzverif.Hash("newLER"), from: nextFrom, to: nextFrom + span,
			createdAt: zzverif.U32("createdAt"), status: agglayertypes.Settled}
		for j := 0; j < i; j++ {
			zzverif.Assume(chain[j].id != t.id)
		}
		chain[i] = t
		if i < hist {
			prevLER, nextFrom = t.newLER, t.to+1
		}
	}
	ag := &zzAgglayer{}
	withPrev := zzverif.Bool("headerHasPrevLER")
	if hist > 0 {
		ag.settled = chain[hist-1].header(uint64(hist-1), net, withPrev)
	}
	if last == 1 {
		chain[n-1].status = zzOpenStatus("lastStatus")
		ag.pending = chain[n-1].header(uint64(n-1), net, withPrev)
	} else if last == 2 {
		chain[n-1].status = agglayertypes.InError
		ag.pending = chain[n-1].header(uint64(n-1), net, withPrev)
	}
	for i, t := range chain {
		ag.all = append(ag.all, t.header(uint64(i), net, withPrev))
	}

	// the node's database before the restart
	path := zzverif.TempDB("aggsender")
	st, err := aggsenderdb.NewAggSenderSQLStorage(log.GetDefaultLogger(), aggsenderdb.AggSenderSQLStorageConfig{DBPath: path, KeepCertificatesHistory: keep})
	if err != nil {
		zzverif.Assert("storage opens", false)
		return
	}
	contradiction := false
	switch local {
	case 1: // every settled certificate recorded, the last submit not
		zzverif.Assume(hist > 0 && last != 0)
		for i := 0; i < hist; i++ {
			zzverif.Assume(st.SaveLastSentCertificate(ctx, chain[i].local(uint64(i), agglayertypes.Settled)) == nil)
		}
	case 2: // everything recorded; the status of the last one is whatever the last poll saw
		zzverif.Assume(n > 0)
		for i := 0; i < n; i++ {
			s := agglayertypes.Settled
			if i == n-1 {
				s = zzOpenStatus("localStatus")
				if zzverif.Bool("localUpToDate") {
					s = chain[i].status
				}
			}
			zzverif.Assume(st.SaveLastSentCertificate(ctx, chain[i].local(uint64(i), s)) == nil)
		}
	case 3: // a record the Agglayer knows nothing about: above its last height, or at its last height with another id,
		// or two or more heights behind it
		bogus := &zzTruth{id: zzverif.Hash("bogusID"), prevLER: zzverif.Hash("bogusPrev"), newLER: zzverif.Hash("bogusLER"), from: 1, to: 1 + uint64(zzverif.U32("bspan")),
			createdAt: zzverif.U32("bcreated")}
		for _, t := range chain {
			zzverif.Assume(t.id != bogus.id)
		}
		bh := uint64(zzverif.U8("bogusHeight"))
		zzverif.Assume(n == 0 || bh >= uint64(n-1) || bh+2 <= uint64(n-1))
		bs := agglayertypes.Settled
		if zzverif.Bool("bogusInError") {
			bs = agglayertypes.InError
		}
		zzverif.Assume(st.SaveLastSentCertificate(ctx, bogus.local(bh, bs)) == nil)
		contradiction = true
	}
	before, errB := st.GetLastSentCertificateHeader()
	zzverif.Assert("read before", errB == nil)

	// restart
	checker := statuschecker.NewCertStatusChecker(log.GetDefaultLogger(), st, ag, net)
	if qf := zzverif.Param("QF"); qf != 0 {
		// the first attempt meets an Agglayer whose latest-non-settled (1) or latest-settled (2) query fails: the attempt fails
		// (CheckInitialStatus retries after a pause) and changes nothing
		if qf == 1 {
			ag.failPending = 1
		} else {
			ag.failSettled = 1
		}
		errQ := statuschecker.ZZVerifInitialStatusOnce(ctx, checker)
		mid, errM := st.GetLastSentCertificateHeader()
		zzverif.Assert("an attempt whose Agglayer query failed reports the failure", errQ != nil)
		// (the poll of open certificates that precedes the reconciliation may have refreshed the record's status)
		zzverif.Assert("and leaves the last record the same certificate", errM == nil && (before == nil) == (mid == nil) && (before == nil ||
			(before.Height == mid.Height && before.CertificateID == mid.CertificateID && before.NewLocalExitRoot == mid.NewLocalExitRoot &&
				before.FromBlock == mid.FromBlock && before.ToBlock == mid.ToBlock)))
		zzverif.Reach("query failed")
	}
	err = statuschecker.ZZVerifInitialStatusOnce(ctx, checker)
	after, errA := st.GetLastSentCertificateHeader()
	zzverif.Assert("read after", errA == nil)

	if contradiction {
		zzverif.Assert("records that contradict the Agglayer stop the start-up check", err != nil)
		zzverif.Assert("and leave the database as it was", before != nil && after != nil && zzSameHeader(before, after))
		zzverif.Reach("refused")
		return
	}
	zzverif.Assert("consistent histories reconcile", err == nil)
	if err != nil {
		return
	}
	if n == 0 {
		zzverif.Assert("nothing anywhere: nothing stored", after == nil)
	} else {
		top := chain[n-1]
		zzverif.Assert("after the start-up check the last local record is the Agglayer's last certificate",
			after != nil && after.Height == uint64(n-1) && after.CertificateID == top.id && after.NewLocalExitRoot == top.newLER &&
				after.Status == top.status && after.FromBlock == top.from && after.ToBlock == top.to)
		if after == nil {
			return
		}
		all, errL := st.GetCertificateHeadersByStatus(nil)
		cnt := 0
		for _, h := range all {
			if h.Height == uint64(n-1) {
				cnt++
			}
		}
		zzverif.Assert("one record at that height", errL == nil && cnt == 1)
	}

	// what the next certificate would be built from
	f := NewBaseFlow(log.GetDefaultLogger(), nil, st, nil, &zzLER{ler: startLER}, NewBaseFlowConfigDefault())
	height, pl, errH := f.getNextHeightAndPreviousLER(after)
	lastBlock, retries := f.getLastSentBlockAndRetryCount(after)
	switch {
	case n == 0:
		zzverif.Assert("first certificate: height 0 from the start exit root and the start block", errH == nil && height == 0 && pl == startLER && lastBlock == 0 && retries == 0)
		zzverif.Reach("first")
	case last == 1:
		zzverif.Assert("no new certificate while the last one is undecided", errH != nil)
		zzverif.Reach("undecided")
	case last == 0:
		top := chain[n-1]
		zzverif.Assert("next certificate follows the settled one", errH == nil && height == uint64(n) && pl == top.newLER && lastBlock == top.to && retries == 0)
		zzverif.Reach("follows")
	case last == 2:
		top := chain[n-1]
		if errH == nil {
			zzverif.Assert("replacement reuses height, previous exit root and first block of the certificate in error",
				height == uint64(n-1) && pl == top.prevLER && lastBlock+1 == top.from && retries >= 1)
			zzverif.Reach("replaces")
		} else {
			// the Agglayer's header did not carry the previous exit root and the settled certificate below it is not in the
			// (lost) database: the node cannot build the replacement and says so
			zzverif.Assert("refusal only when the previous exit root is unavailable", !withPrev && hist > 0 && local == 0)
			zzverif.Reach("cannot replace")
		}
	}
}

func zzSameHeader(a, b *types.CertificateHeader) bool {
	return a.Height == b.Height && a.RetryCount == b.RetryCount && a.CertificateID == b.CertificateID && *a.PreviousLocalExitRoot == *b.PreviousLocalExitRoot &&
		a.NewLocalExitRoot == b.NewLocalExitRoot && a.FromBlock == b.FromBlock && a.ToBlock == b.ToBlock && a.Status == b.Status &&
		a.CreatedAt == b.CreatedAt && a.UpdatedAt == b.UpdatedAt && a.CertType == b.CertType && a.CertSource == b.CertSource
}

// ZZVerif_C13_Save: a record exists at a height; a second certificate for the same height (a retry) is saved with a storage
// fault on one statement of the transaction, or none. Without a fault exactly the new record is at that height; with a fault
// the save fails and the old record is still there, unchanged.
func ZZVerif_C13_Save() {
	keep := zzverif.Param("KEEP") == 1
	fault := zzverif.Param("FAULT") // 0 none, 1 insert certificate_info, 2 insert certificate_info_history, 3 delete certificate_info
	ctx := context.Background()
	path := zzverif.TempDB("aggsender")
	st, err := aggsenderdb.NewAggSenderSQLStorage(log.GetDefaultLogger(), aggsenderdb.AggSenderSQLStorageConfig{DBPath: path, KeepCertificatesHistory: keep})
	if err != nil {
		zzverif.Assert("storage opens", false)
		return
	}
	h := zzverif.U64("height") >> 1
	old := &zzTruth{id: zzverif.Hash("oldID"), prevLER: zzverif.Hash("prev"), newLER: zzverif.Hash("oldLER"), from: zzverif.U64("from") >> 1, createdAt: zzverif.U32("c1")}
	old.to = old.from + uint64(zzverif.U32("span1"))
	nw := &zzTruth{id: zzverif.Hash("newID"), prevLER: old.prevLER, newLER: zzverif.Hash("newLER"), from: old.from, createdAt: zzverif.U32("c2")}
	nw.to = nw.from + uint64(zzverif.U32("span2"))
	zzverif.Assume(old.id != nw.id)
	if h > 0 && zzverif.Bool("hasLower") {
		low := &zzTruth{id: zzverif.Hash("lowID"), newLER: old.prevLER, from: 1, to: old.from}
		zzverif.Assume(low.id != old.id && low.id != nw.id)
		zzverif.Assume(st.SaveLastSentCertificate(ctx, low.local(h-1, agglayertypes.Settled)) == nil)
	}
	zzverif.Assume(st.SaveLastSentCertificate(ctx, old.local(h, agglayertypes.InError)) == nil)
	before, errB := st.GetCertificateHeaderByHeight(h)
	zzverif.Assert("stored", errB == nil && before != nil && before.CertificateID == old.id)
	if errB != nil || before == nil {
		return
	}
	raw, errO := aggkitdb.NewSQLiteDB(path)
	if errO != nil {
		zzverif.Assert("second handle", false)
		return
	}
	applies := true
	switch fault {
	case 1:
		zzverif.FailInsert(raw, "certificate_info", 0)
	case 2:
		zzverif.FailInsert(raw, "certificate_info_history", 0)
		applies = keep
	case 3:
		zzverif.FailDelete(raw, "certificate_info")
	}
	c2 := nw.local(h, agglayertypes.Pending)
	c2.Header.RetryCount = 1
	err = st.SaveLastSentCertificate(ctx, c2)
	after, errA := st.GetCertificateHeaderByHeight(h)
	all, errL := st.GetCertificateHeadersByStatus(nil)
	cnt := 0
	for _, x := range all {
		if x.Height == h {
			cnt++
		}
	}
	zzverif.Assert("one record per height", errA == nil && errL == nil && after != nil && cnt == 1)
	if after == nil {
		return
	}
	if fault != 0 && applies {
		zzverif.Assert("a failed write is reported", err != nil)
		zzverif.Assert("and leaves the previous record intact", zzSameHeader(before, after))
		zzverif.Reach("failed write")
		return
	}
	zzverif.Assert("save succeeds", err == nil)
	zzverif.Assert("the record at the height is the new certificate", after.CertificateID == nw.id && after.NewLocalExitRoot == nw.newLER && after.RetryCount == 1 &&
		after.FromBlock == nw.from && after.ToBlock == nw.to && after.Status == agglayertypes.Pending && *after.PreviousLocalExitRoot == nw.prevLER)
	last, errLast := st.GetLastSentCertificateHeader()
	zzverif.Assert("and it is the last one", errLast == nil && last != nil && last.CertificateID == nw.id)
	zzverif.Reach("replaced")
}

// ZZVerif_C13_Inconsistent: the Agglayer reports HIST settled certificates and, as its latest non-settled certificate, one at a
// height at or below the last settled height (open or in error) - answers that contradict each other. The start-up check
// refuses and leaves the database as it was, whether the database is lost or holds the settled certificates.
func ZZVerif_C13_Inconsistent() {
	hist := zzverif.Param("HIST") // >= 1
	local := zzverif.Param("LOCAL")
	ctx := context.Background()
	net := zzverif.U32("networkID")
	chain := make([]*zzTruth, hist)
	prevLER, nextFrom := common.Hash(zzverif.Hash("startLER")), uint64(1)
	for i := 0; i < hist; i++ {
		span := uint64(zzverif.U32("span"))
		t := &zzTruth{id: zzverif.Hash("certID"), prevLER: prevLER, newLER: zzverif.Hash("newLER"), from: nextFrom, to: nextFrom + span,
			createdAt: zzverif.U32("createdAt"), status: agglayertypes.Settled}
		for j := 0; j < i; j++ {
			zzverif.Assume(chain[j].id != t.id)
		}
		chain[i] = t
		prevLER, nextFrom = t.newLER, t.to+1
	}
	stale := &zzTruth{id: zzverif.Hash("staleID"), prevLER: zzverif.Hash("stalePrev"), newLER: zzverif.Hash("staleLER"), from: 1, to: 1 + uint64(zzverif.U32("sspan")),
		createdAt: zzverif.U32("screated"), status: agglayertypes.InError}
	if !zzverif.Bool("staleInError") {
		stale.status = zzOpenStatus("staleStatus")
	}
	for _, t := range chain {
		zzverif.Assume(t.id != stale.id)
	}
	sh := zzverif.Int("staleHeight", 0, hist-1)
	withPrev := zzverif.Bool("headerHasPrevLER")
	ag := &zzAgglayer{settled: chain[hist-1].header(uint64(hist-1), net, withPrev), pending: stale.header(uint64(sh), net, withPrev)}
	for i, t := range chain {
		ag.all = append(ag.all, t.header(uint64(i), net, withPrev))
	}
	st, err := aggsenderdb.NewAggSenderSQLStorage(log.GetDefaultLogger(), aggsenderdb.AggSenderSQLStorageConfig{DBPath: zzverif.TempDB("aggsender")})
	if err != nil {
		zzverif.Assert("storage opens", false)
		return
	}
	if local == 2 {
		for i := 0; i < hist; i++ {
			zzverif.Assume(st.SaveLastSentCertificate(ctx, chain[i].local(uint64(i), agglayertypes.Settled)) == nil)
		}
	}
	before, errB := st.GetLastSentCertificateHeader()
	zzverif.Assert("read before", errB == nil)
	checker := statuschecker.NewCertStatusChecker(log.GetDefaultLogger(), st, ag, net)
	err = statuschecker.ZZVerifInitialStatusOnce(ctx, checker)
	after, errA := st.GetLastSentCertificateHeader()
	zzverif.Assert("read after", errA == nil)
	zzverif.Assert("contradicting Agglayer answers stop the start-up check", err != nil)
	zzverif.Assert("and leave the database as it was", (before == nil && after == nil) || (before != nil && after != nil && zzSameHeader(before, after)))
	zzverif.Reach("refused")
}
