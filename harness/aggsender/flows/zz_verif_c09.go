package flows

import (
	"context"
	"errors"
	"math/big"

	agglayertypes "github.com/agglayer/aggkit/agglayer/types"
	"github.com/agglayer/aggkit/aggsender/query"
	"github.com/agglayer/aggkit/aggsender/types"
	"github.com/agglayer/aggkit/bridgesync"
	"github.com/agglayer/aggkit/internal/zzverif"
	"github.com/agglayer/aggkit/l1infotreesync"
	"github.com/agglayer/aggkit/log"
	"github.com/agglayer/aggkit/tree"
	treetypes "github.com/agglayer/aggkit/tree/types"
	aggkittypes "github.com/agglayer/aggkit/types"
	signertypes "github.com/agglayer/go_signer/signer/types"
	"github.com/ethereum/go-ethereum/common"
	ethtypes "github.com/ethereum/go-ethereum/core/types"
	"github.com/ethereum/go-ethereum/crypto"
)

// zzZeroHashes[h] = root of an empty subtree of height h.
func zzZeroHashes() (z [33]common.Hash) {
	if zzZeroDone {
		return zzZero
	}
	for h := 1; h <= 32; h++ {
		z[h] = crypto.Keccak256Hash(z[h-1][:], z[h-1][:])
	}
	zzZero, zzZeroDone = z, true
	return
}

var (
	zzZero     [33]common.Hash
	zzZeroDone bool
)

// zzMerkle returns the root of the height-32 tree whose first len(leaves) leaves are given (the rest zero) and the proof of
// position idx: what the L1 info tree syncer serves for (idx, that root) according to C08/C11.
func zzMerkle(leaves []common.Hash, idx uint32) (common.Hash, treetypes.Proof) {
	z := zzZeroHashes()
	var proof treetypes.Proof
	level := append([]common.Hash{}, leaves...)
	pos := idx
	for h := 0; h < 32; h++ {
		sib := pos ^ 1
		if int(sib) < len(level) {
			proof[h] = level[sib]
		} else {
			proof[h] = z[h]
		}
		next := make([]common.Hash, 0, (len(level)+1)/2)
		for i := 0; i < len(level); i += 2 {
			l := level[i]
			r := z[h]
			if i+1 < len(level) {
				r = level[i+1]
			}
			next = append(next, crypto.Keccak256Hash(l[:], r[:]))
		}
		level = next
		pos >>= 1
	}
	return level[0], proof
}

// zzL1Syncer answers like the real L1 info tree syncer is shown to answer in C08/C11.
type zzL1Syncer struct {
	leaves     []l1infotreesync.L1InfoTreeLeaf
	hashes     []common.Hash
	processed  uint64
	blockHash  common.Hash // hash the syncer recorded for the processed finalized block
	proofCalls int
}

func (s *zzL1Syncer) GetInfoByGlobalExitRoot(ger common.Hash) (*l1infotreesync.L1InfoTreeLeaf, error) {
	for i := range s.leaves {
		if s.leaves[i].GlobalExitRoot == ger {
			l := s.leaves[i]
			return &l, nil
		}
	}
	return nil, errors.New("not found")
}

func (s *zzL1Syncer) rootAt(index uint32) common.Hash {
	r, _ := zzMerkle(s.hashes[:index+1], 0)
	return r
}

func (s *zzL1Syncer) GetL1InfoTreeMerkleProofFromIndexToRoot(ctx context.Context, index uint32, root common.Hash) (treetypes.Proof, error) {
	s.proofCalls++
	for k := int(index); k < len(s.hashes); k++ {
		if s.rootAt(uint32(k)) == root {
			_, p := zzMerkle(s.hashes[:k+1], index)
			return p, nil
		}
	}
	return treetypes.Proof{}, errors.New("root not found")
}

func (s *zzL1Syncer) GetL1InfoTreeRootByIndex(ctx context.Context, index uint32) (treetypes.Root, error) {
	if int(index) >= len(s.hashes) {
		return treetypes.Root{}, errors.New("not found")
	}
	return treetypes.Root{Hash: s.rootAt(index), Index: index, BlockNum: s.leaves[index].BlockNumber}, nil
}

func (s *zzL1Syncer) GetProcessedBlockUntil(ctx context.Context, blockNumber uint64) (uint64, common.Hash, error) {
	if blockNumber < s.processed {
		return blockNumber, common.Hash{}, nil
	}
	return s.processed, s.blockHash, nil
}

func (s *zzL1Syncer) GetInfoByIndex(ctx context.Context, index uint32) (*l1infotreesync.L1InfoTreeLeaf, error) {
	if int(index) >= len(s.leaves) {
		return nil, errors.New("not found")
	}
	l := s.leaves[index]
	return &l, nil
}

func (s *zzL1Syncer) GetLatestInfoUntilBlock(ctx context.Context, blockNum uint64) (*l1infotreesync.L1InfoTreeLeaf, error) {
	if s.processed < blockNum {
		return nil, l1infotreesync.ErrBlockNotProcessed
	}
	for i := len(s.leaves) - 1; i >= 0; i-- {
		if s.leaves[i].BlockNumber <= blockNum {
			l := s.leaves[i]
			return &l, nil
		}
	}
	return nil, errors.New("not found")
}

type zzL1Client struct {
	aggkittypes.BaseEthereumClienter
	finalized uint64
	hashOf    func(n uint64) *ethtypes.Header
}

func (c *zzL1Client) HeaderByNumber(ctx context.Context, number *big.Int) (*ethtypes.Header, error) {
	if number.Sign() < 0 {
		return c.hashOf(c.finalized), nil
	}
	return c.hashOf(number.Uint64()), nil
}

type zzSigner struct {
	signertypes.Signer
	signed []common.Hash
	sig    []byte
}

func (s *zzSigner) SignHash(ctx context.Context, h common.Hash) ([]byte, error) {
	s.signed = append(s.signed, h)
	return s.sig, nil
}
func (s *zzSigner) PublicAddress() common.Address { return common.Address{1} }

// zzContractLeaf is the bridge contract's leaf value of a claimed exit.
func zzContractLeaf(c *bridgesync.Claim) common.Hash {
	lt := byte(0)
	if c.IsMessage {
		lt = 1
	}
	var amt common.Hash
	c.Amount.FillBytes(amt[:])
	mh := crypto.Keccak256Hash(c.Metadata)
	on, dn := c.OriginNetwork, c.DestinationNetwork
	return crypto.Keccak256Hash([]byte{lt}, []byte{byte(on >> 24), byte(on >> 16), byte(on >> 8), byte(on)}, c.OriginAddress[:],
		[]byte{byte(dn >> 24), byte(dn >> 16), byte(dn >> 8), byte(dn)}, c.DestinationAddress[:], amt[:], mh[:])
}

// ZZVerif_C09_ClaimProofs: NL L1 info leaves; the first NC of them carry the exit roots against which NC claims were made on L2
// (claim k was accepted by the L2 bridge contract: its proofs lead from its leaf to the mainnet exit root, or to a local exit
// root and from there to the rollup exit root, of L1 info leaf k). The finalized L1 block covers FIN+1 leaves. The real PP flow
// builds and signs the certificate. Every imported exit verifies against the L1 info root the certificate names; the signature
// is the signer's answer for the commitment of the returned certificate.
func ZZVerif_C09_ClaimProofs() {
	nl, nc, fin := zzverif.Param("NL"), zzverif.Param("NC"), zzverif.Param("FIN")
	ml := zzverif.Param("ML")
	ctx := context.Background()
	syn := &zzL1Syncer{}
	l2 := &zzL2{net: zzverif.U32("networkID"), last: uint64(nc)}
	for j := 0; j < nl; j++ {
		mer, rer := common.Hash(zzverif.Hash("mer")), common.Hash(zzverif.Hash("rer"))
		if j < nc {
			c := zzFlowClaim(uint64(j+1), 0)
			c.Metadata = zzverif.Bytes("cMetaLong", ml)
			for h := 0; h < 32; h++ {
				c.ProofLocalExitRoot[h] = zzverif.Hash("pLER")
				c.ProofRollupExitRoot[h] = zzverif.Hash("pRER")
			}
			if zzverif.Param("GIFULL") == 1 {
				// full-length encodings only (the byte-length cases of the global index are the subject of C19)
				m0, r0, l0 := zzverif.Param("MAINNET") == 1, zzverif.U32("cRollupF")|1<<31, zzverif.U32("cLeafF")
				if zzverif.Param("SYMIDX") == 0 {
					// concrete tree positions (several patterns are registered); symbolic positions: SYMIDX=1
					r0, l0 = uint32(zzverif.Param("RIDX"))+uint32(j)|1<<31, uint32(zzverif.Param("LIDX"))+uint32(5*j)
				}
				c.GlobalIndex = bridgesync.GenerateGlobalIndex(m0, r0, l0)
			}
			mainnet, rollupIdx, leafIdx, _ := bridgesync.DecodeGlobalIndex(c.GlobalIndex)
			leaf := zzContractLeaf(&c)
			if mainnet {
				mer = tree.CalculateRoot(leaf, c.ProofLocalExitRoot, leafIdx)
			} else {
				ler := tree.CalculateRoot(leaf, c.ProofLocalExitRoot, leafIdx)
				rer = tree.CalculateRoot(ler, c.ProofRollupExitRoot, rollupIdx)
			}
			c.MainnetExitRoot, c.RollupExitRoot = mer, rer
			c.GlobalExitRoot = crypto.Keccak256Hash(mer[:], rer[:])
			l2.claims = append(l2.claims, c)
		}
		lf := l1infotreesync.L1InfoTreeLeaf{BlockNumber: uint64(10 * (j + 1)), L1InfoTreeIndex: uint32(j), PreviousBlockHash: zzverif.Hash("parent"),
			Timestamp: zzverif.U64("ts"), MainnetExitRoot: mer, RollupExitRoot: rer}
		lf.GlobalExitRoot = crypto.Keccak256Hash(mer[:], rer[:])
		lf.Hash = lf.GetHash()
		for _, o := range syn.leaves {
			zzverif.Assume(o.GlobalExitRoot != lf.GlobalExitRoot)
		}
		syn.leaves = append(syn.leaves, lf)
		syn.hashes = append(syn.hashes, lf.Hash)
	}
	// finalized pointer: the finalized L1 block is the block of leaf FIN (plus an arbitrary offset below the next leaf);
	// the syncer is behind, level with, or ahead of it
	finBlock := uint64(10*(fin+1)) + uint64(zzverif.Int("finOffset", 0, 2))
	salt := common.Hash(zzverif.Hash("chainSalt"))
	hdr := func(n uint64) *ethtypes.Header {
		return &ethtypes.Header{Number: new(big.Int).SetUint64(n), ParentHash: salt, Time: n}
	}
	l1c := &zzL1Client{finalized: finBlock, hashOf: hdr}
	switch zzverif.Int("syncerPosition", 0, 2) {
	case 0: // behind: processed up to the block of leaf FIN exactly
		syn.processed = uint64(10 * (fin + 1))
	case 1:
		syn.processed = finBlock
	case 2:
		syn.processed = finBlock + 7
	}
	if syn.processed <= finBlock {
		syn.blockHash = hdr(syn.processed).Hash()
		if zzverif.Bool("syncerOnAnotherFork") {
			syn.blockHash = zzverif.Hash("forkHash")
			zzverif.Assume(syn.blockHash != hdr(syn.processed).Hash() && syn.blockHash != common.Hash{})
		}
	}
	st := &zzStorage{byHeight: map[uint64]*types.CertificateHeader{}}
	lq := query.NewL1InfoTreeDataQuerier(l1c, syn)
	base := NewBaseFlow(log.GetDefaultLogger(), l2, st, lq, &zzLER{}, NewBaseFlowConfigDefault())
	signer := &zzSigner{sig: zzverif.Bytes("signature", 65)}
	pp := NewPPFlow(log.GetDefaultLogger(), base, st, lq, l2, signer, false, 0)
	params, err := pp.GetCertificateBuildParams(ctx)
	if syn.processed <= finBlock && syn.blockHash != hdr(syn.processed).Hash() {
		zzverif.Reach("fork")
		zzverif.Assert("syncer on another fork than the finalized block: no certificate", err != nil && params == nil)
		return
	}
	zzverif.Assert("build params", err == nil && params != nil)
	if err != nil || params == nil {
		return
	}
	// the root named by the certificate covers the leaves at or below the finalized processed block
	covered := 0
	for j := 0; j < nl; j++ {
		lim := finBlock
		if syn.processed < lim {
			lim = syn.processed
		}
		if syn.leaves[j].BlockNumber <= lim {
			covered = j + 1
		}
	}
	zzverif.Assert("leaf count belongs to the named root", covered >= 1 && params.L1InfoTreeLeafCount == uint32(covered) && params.L1InfoTreeRootFromWhichToProve == syn.rootAt(uint32(covered-1)))
	if covered < nc {
		// a claim against a root that is not finalized yet: outside the property's precondition (the oracle injects finalized roots only)
		zzverif.Reach("notcovered")
		return
	}
	cert, err := pp.BuildCertificate(ctx, params)
	zzverif.Assert("certificate built", err == nil && cert != nil)
	if err != nil || cert == nil {
		return
	}
	zzverif.Reach("built")
	root := params.L1InfoTreeRootFromWhichToProve
	zzverif.Assert("certificate names the leaf count of its root", cert.L1InfoTreeLeafCount == uint32(covered))
	zzverif.Assert("one imported exit per claim", len(cert.ImportedBridgeExits) == nc)
	for k, ie := range cert.ImportedBridgeExits {
		c := l2.claims[k]
		exitHash := ie.BridgeExit.Hash()
		zzverif.Assert("imported exit hashes to the contract's leaf of the claimed exit", exitHash == zzContractLeaf(&c))
		var l1leaf *agglayertypes.L1InfoTreeLeaf
		var proofToRoot *agglayertypes.MerkleProof
		switch cd := ie.ClaimData.(type) {
		case *agglayertypes.ClaimFromMainnnet:
			zzverif.Reach("mainnet")
			l1leaf, proofToRoot = cd.L1Leaf, cd.ProofGERToL1Root
			zzverif.Assert("mainnet claim: proof leads from the exit to the mainnet exit root", ie.GlobalIndex.MainnetFlag &&
				cd.ProofLeafMER.Root == l1leaf.MainnetExitRoot && tree.CalculateRoot(exitHash, cd.ProofLeafMER.Proof, ie.GlobalIndex.LeafIndex) == l1leaf.MainnetExitRoot)
		case *agglayertypes.ClaimFromRollup:
			zzverif.Reach("rollup")
			l1leaf, proofToRoot = cd.L1Leaf, cd.ProofGERToL1Root
			zzverif.Assert("rollup claim: proof leads from the exit to the local exit root it names", !ie.GlobalIndex.MainnetFlag &&
				tree.CalculateRoot(exitHash, cd.ProofLeafLER.Proof, ie.GlobalIndex.LeafIndex) == cd.ProofLeafLER.Root)
			zzverif.Assert("rollup claim: proof leads from that local exit root to the rollup exit root", cd.ProofLERToRER.Root == l1leaf.RollupExitRoot &&
				tree.CalculateRoot(cd.ProofLeafLER.Root, cd.ProofLERToRER.Proof, ie.GlobalIndex.RollupIndex) == l1leaf.RollupExitRoot)
		default:
			zzverif.Assert("claim data present", false)
			continue
		}
		zzverif.Assert("L1 leaf's global exit root = keccak(mainnet exit root, rollup exit root) = the claim's", l1leaf.Inner.GlobalExitRoot == crypto.Keccak256Hash(l1leaf.MainnetExitRoot[:], l1leaf.RollupExitRoot[:]) &&
			l1leaf.Inner.GlobalExitRoot == c.GlobalExitRoot)
		zzverif.Assert("L1 leaf hashes with its proof to the L1 info root the certificate names, at the stated index", proofToRoot.Root == root &&
			tree.CalculateRoot(l1leaf.Hash(), proofToRoot.Proof, l1leaf.L1InfoTreeIndex) == root)
	}
	// C10.a: the signature is the configured signer's answer over the commitment of the returned certificate
	zzverif.Assert("signer asked exactly once", len(signer.signed) == 1)
	if len(signer.signed) == 1 {
		zzverif.Assert("signed hash = PP commitment of the returned certificate", signer.signed[0] == cert.PPHashToSign())
	}
	sig, ok := cert.AggchainData.(*agglayertypes.AggchainDataSignature)
	zzverif.Assert("signature attached", ok && len(sig.Signature) == 65)
	if ok && len(sig.Signature) == 65 {
		same := true
		for i := range sig.Signature {
			if sig.Signature[i] != signer.sig[i] {
				same = false
			}
		}
		zzverif.Assert("attached signature is the signer's answer", same)
	}
}

// ZZVerif_C09_TwoRoots: the same querier proves exit roots against two different L1 info roots one after the other (two
// certificates with the finalized pointer moving in between; the second one may concern the same exit root as the first).
// Each answer must verify against the root it was asked for.
func ZZVerif_C09_TwoRoots() {
	nl := zzverif.Param("NL")
	ctx := context.Background()
	syn := &zzL1Syncer{}
	for j := 0; j < nl; j++ {
		lf := l1infotreesync.L1InfoTreeLeaf{BlockNumber: uint64(10 * (j + 1)), L1InfoTreeIndex: uint32(j), PreviousBlockHash: zzverif.Hash("parent"),
			Timestamp: zzverif.U64("ts"), MainnetExitRoot: zzverif.Hash("mer"), RollupExitRoot: zzverif.Hash("rer")}
		lf.GlobalExitRoot = crypto.Keccak256Hash(lf.MainnetExitRoot[:], lf.RollupExitRoot[:])
		lf.Hash = lf.GetHash()
		for _, o := range syn.leaves {
			zzverif.Assume(o.GlobalExitRoot != lf.GlobalExitRoot)
		}
		syn.leaves = append(syn.leaves, lf)
		syn.hashes = append(syn.hashes, lf.Hash)
	}
	lq := query.NewL1InfoTreeDataQuerier(&zzL1Client{}, syn)
	// first certificate: root covering leaves 0..a ; second: root covering 0..b, b > a ; exit roots of leaves i <= a and j <= b
	a := zzverif.Int("firstRootIndex", 0, nl-2)
	b := zzverif.Int("secondRootIndex", a+1, nl-1)
	i := zzverif.Int("firstLeaf", 0, a)
	j := zzverif.Int("secondLeaf", 0, b)
	for step, q := range [][2]int{{i, a}, {j, b}} {
		root := syn.rootAt(uint32(q[1]))
		leaf, proof, err := lq.GetProofForGER(ctx, syn.leaves[q[0]].GlobalExitRoot, root)
		zzverif.Assert("proof found", err == nil && leaf != nil)
		if err != nil || leaf == nil {
			return
		}
		zzverif.Assert("leaf is the one holding the exit root", leaf.L1InfoTreeIndex == uint32(q[0]) && leaf.GlobalExitRoot == syn.leaves[q[0]].GlobalExitRoot)
		zzverif.Assert("proof verifies against the root asked for", tree.CalculateRoot(leaf.Hash, proof, leaf.L1InfoTreeIndex) == root)
		if step == 1 && i == j {
			zzverif.Reach("same exit root twice")
		}
	}
	zzverif.Reach("both")
}

// ZZVerif_C09_FinalizedRootTwice: the same querier is asked twice for the latest finalized L1 info root while the L1 info
// syncer makes progress (and the finalized block moves or stays). Each answer is the root of the leaves at or below
// min(finalized block, last processed block) at the time of the question - never a remembered earlier one.
func ZZVerif_C09_FinalizedRootTwice() {
	nl := zzverif.Param("NL")
	ctx := context.Background()
	syn := &zzL1Syncer{}
	for j := 0; j < nl; j++ {
		lf := l1infotreesync.L1InfoTreeLeaf{BlockNumber: uint64(10 * (j + 1)), L1InfoTreeIndex: uint32(j), PreviousBlockHash: zzverif.Hash("parent"),
			Timestamp: zzverif.U64("ts"), MainnetExitRoot: zzverif.Hash("mer"), RollupExitRoot: zzverif.Hash("rer")}
		lf.GlobalExitRoot = crypto.Keccak256Hash(lf.MainnetExitRoot[:], lf.RollupExitRoot[:])
		lf.Hash = lf.GetHash()
		syn.leaves = append(syn.leaves, lf)
		syn.hashes = append(syn.hashes, lf.Hash)
	}
	salt := common.Hash(zzverif.Hash("chainSalt"))
	hdr := func(n uint64) *ethtypes.Header {
		return &ethtypes.Header{Number: new(big.Int).SetUint64(n), ParentHash: salt, Time: n}
	}
	l1c := &zzL1Client{hashOf: hdr}
	lq := query.NewL1InfoTreeDataQuerier(l1c, syn)
	// finalized block and last processed block: the block of some leaf plus an offset below the next leaf's block; both never
	// move backwards between the two questions
	pf, pp := 0, 0
	pfo, ppo := uint64(0), uint64(0)
	for step := 0; step < 2; step++ {
		fa := zzverif.Int("finalizedLeaf", pf, nl-1)
		pa := zzverif.Int("processedLeaf", pp, nl-1)
		fo, po := uint64(5*zzverif.Int("finalizedOffset", 0, 1)), uint64(5*zzverif.Int("processedOffset", 0, 1))
		zzverif.Assume((fa > pf || fo >= pfo) && (pa > pp || po >= ppo))
		pf, pp, pfo, ppo = fa, pa, fo, po
		l1c.finalized, syn.processed = uint64(10*(fa+1))+fo, uint64(10*(pa+1))+po
		syn.blockHash = hdr(syn.processed).Hash()
		root, leaf, err := lq.GetLatestFinalizedL1InfoRoot(ctx)
		covered := fa + 1
		if pa < fa {
			covered = pa + 1
		}
		zzverif.Assert("answer", err == nil && root != nil && leaf != nil)
		if err != nil || root == nil || leaf == nil {
			return
		}
		zzverif.Assert("the root and leaf are those of the leaves at or below min(finalized, processed) now", root.Index == uint32(covered-1) &&
			root.Hash == syn.rootAt(uint32(covered-1)) && leaf.L1InfoTreeIndex == uint32(covered-1))
	}
	zzverif.Reach("both")
}
