package aggsender

import (
	"github.com/agglayer/aggkit/aggsender/types"
	"github.com/agglayer/aggkit/internal/zzverif"
	"github.com/agglayer/aggkit/log"
)

// zzRefEpoch is the specification's epoch number of block b (b >= S): epochs are numbered from 1 and have N blocks.
func zzRefEpoch(b, s, n uint64) uint64 { return 1 + (b-s)/n }

// zzRefQualifies: block b is at or beyond pct percent of its epoch (capped so that the last block always qualifies).
func zzRefQualifies(b, s, n, pct uint64) bool {
	ep := zzRefEpoch(b, s, n)
	start := s + (ep-1)*n
	elapsed := b - start
	thr := pct * n
	if thr > 100*(n-1) {
		thr = 100 * (n - 1)
	}
	return elapsed*100 >= thr
}

// zzN is the epoch length: a concrete parameter, or (parameter 0) an arbitrary value in [1, 2^32).
func zzN() uint64 {
	if p := zzverif.Param("N"); p != 0 {
		return uint64(p)
	}
	n := uint64(zzverif.U32("N"))
	zzverif.Assume(n >= 1)
	return n
}

// ZZVerif_C18_Step: one step of the notifier from an arbitrary state satisfying the representation invariant.
// ghost = greatest epoch in which a qualifying block has been seen (0 if none).
func ZZVerif_C18_Step() {
	n := zzN()
	s := zzverif.U64("S")
	pct := uint64(zzverif.U8("pct"))
	last := zzverif.U64("last")
	b := zzverif.U64("b")
	ghost := zzverif.U64("ghost")
	zzverif.Assume(pct < 100 && s >= 1 && s < 1<<40 && last >= s && last < 1<<40 && b > last && b < 1<<40)
	zzverif.Assume(ghost <= zzRefEpoch(last, s, n))
	e := &EpochNotifierPerBlock{
		logger: log.GetDefaultLogger(),
		Config: ConfigEpochNotifierPerBlock{StartingEpochBlock: s, NumBlockPerEpoch: uint(n), EpochNotificationPercentage: uint(pct)},
	}
	st := internalStatus{lastBlockSeen: last, waitingForEpoch: ghost + 1}
	st2, ev := e.step(st, types.EventNewBlock{BlockNumber: b})
	ep := zzRefEpoch(b, s, n)
	q := zzRefQualifies(b, s, n, pct)
	first := q && ep > ghost
	zzverif.Assert("event iff first qualifying block of its epoch", (ev != nil) == first)
	if ev != nil {
		zzverif.Reach("event")
		zzverif.Assert("event names the block's epoch", ev.Epoch == ep)
		zzverif.Assert("epoch numbers strictly increase", ev.Epoch > ghost)
	} else {
		zzverif.Reach("noevent")
	}
	ghost2 := ghost
	if q && ep > ghost {
		ghost2 = ep
	}
	zzverif.Assert("invariant: waitingForEpoch = ghost+1", st2.waitingForEpoch == ghost2+1)
	zzverif.Assert("invariant: lastBlockSeen advanced", st2.lastBlockSeen == b && ghost2 <= zzRefEpoch(b, s, n))
}

// ZZVerif_C18_Stale: a block that is not newer than the last one seen, or before the first epoch, changes nothing.
func ZZVerif_C18_Stale() {
	n := zzN()
	s := zzverif.U64("S")
	pct := uint64(zzverif.U8("pct"))
	last := zzverif.U64("last")
	b := zzverif.U64("b")
	w := zzverif.U64("waiting")
	zzverif.Assume(pct < 100 && s >= 1 && s < 1<<40 && last >= s && last < 1<<40 && (b <= last || b < s))
	e := &EpochNotifierPerBlock{
		logger: log.GetDefaultLogger(),
		Config: ConfigEpochNotifierPerBlock{StartingEpochBlock: s, NumBlockPerEpoch: uint(n), EpochNotificationPercentage: uint(pct)},
	}
	st := internalStatus{lastBlockSeen: last, waitingForEpoch: w}
	st2, ev := e.step(st, types.EventNewBlock{BlockNumber: b})
	zzverif.Assert("no event for a stale block", ev == nil)
	zzverif.Assert("state unchanged by a stale block", st2 == st)
}

// ZZVerif_C18_FloatKernel: the real float64 threshold test agrees with the exact integer specification
// (small concrete epoch length, block within the first three epochs; IEEE-754 semantics decided by the solver).
func ZZVerif_C18_FloatKernel() {
	n := uint64(zzverif.Param("N"))
	s := uint64(zzverif.Param("S"))
	pct := uint64(zzverif.U8("pct"))
	b := zzverif.U64("b")
	w := zzverif.U64("waiting")
	zzverif.Assume(pct < 100 && b >= s && b < s+3*n)
	e := &EpochNotifierPerBlock{
		logger: log.GetDefaultLogger(),
		Config: ConfigEpochNotifierPerBlock{StartingEpochBlock: s, NumBlockPerEpoch: uint(n), EpochNotificationPercentage: uint(pct)},
	}
	need, ep := e.isNotificationRequired(b, w)
	zzverif.Assert("epoch number", ep == zzRefEpoch(b, s, n))
	zzverif.Assert("float threshold test == exact integer test", need == (zzRefQualifies(b, s, n, pct) && zzRefEpoch(b, s, n)+1 > w))
	if need {
		zzverif.Reach("need")
	} else {
		zzverif.Reach("noneed")
	}
}
