package aggsender

import (
	"context"
	"errors"
	"math/big"
	"time"

	"github.com/agglayer/aggkit/agglayer"
	agglayertypes "github.com/agglayer/aggkit/agglayer/types"
	"github.com/agglayer/aggkit/aggsender/config"
	aggsenderdb "github.com/agglayer/aggkit/aggsender/db"
	"github.com/agglayer/aggkit/aggsender/flows"
	"github.com/agglayer/aggkit/aggsender/statuschecker"
	"github.com/agglayer/aggkit/aggsender/types"
	"github.com/agglayer/aggkit/bridgesync"
	cfgtypes "github.com/agglayer/aggkit/config/types"
	"github.com/agglayer/aggkit/internal/zzverif"
	"github.com/agglayer/aggkit/l1infotreesync"
	"github.com/agglayer/aggkit/log"
	treetypes "github.com/agglayer/aggkit/tree/types"
	signertypes "github.com/agglayer/go_signer/signer/types"
	"github.com/ethereum/go-ethereum/common"
	"github.com/ethereum/go-ethereum/crypto"
)

// The status ticker of the send loop: harness/REWRITES.json replaces the loop's time.NewTicker call by zzNewTicker (on the
// repository's current aggsender.go, at every run), so that ticks are events of the schedule instead of wall-clock time.
var zzTickCh chan time.Time

func zzNewTicker(d time.Duration) *time.Ticker { return &time.Ticker{C: zzTickCh} }

// zzC02L2: the L2 bridge syncer as the aggsender sees it (contract: C01/C04). Block i (1..max) holds one bridge iff bit i-1 of
// `mask` is set; the bridge's destination network is its block number (a tag to recognise it in a certificate); the exit root
// after each deposit is a fresh symbolic hash. With `grow`, one more block becomes visible at every poll of the last block.
type zzC02L2 struct {
	claims  []bridgesync.Claim
	bridges []bridgesync.Bridge
	roots   []common.Hash
	last    uint64
	max     uint64
	grow    bool
	net     uint32
}

func (l *zzC02L2) GetBridgesAndClaims(ctx context.Context, from, to uint64) ([]bridgesync.Bridge, []bridgesync.Claim, error) {
	if to > l.last {
		return nil, nil, errors.New("block not processed")
	}
	var bs []bridgesync.Bridge
	for _, b := range l.bridges {
		if b.BlockNum >= from && b.BlockNum <= to {
			bs = append(bs, b)
		}
	}
	var cs []bridgesync.Claim
	for _, c := range l.claims {
		if c.BlockNum >= from && c.BlockNum <= to {
			cs = append(cs, c)
		}
	}
	return bs, cs, nil
}
func (l *zzC02L2) GetExitRootByIndex(ctx context.Context, index uint32) (common.Hash, error) {
	if int(index) >= len(l.roots) {
		return common.Hash{}, errors.New("not found")
	}
	return l.roots[index], nil
}
func (l *zzC02L2) GetLastProcessedBlock(ctx context.Context) (uint64, error) {
	if l.grow && l.last < l.max {
		l.last++
	}
	return l.last, nil
}
func (l *zzC02L2) OriginNetwork() uint32                                          { return l.net }
func (l *zzC02L2) WaitForSyncerToCatchUp(ctx context.Context, block uint64) error { return nil }

// rootAfter: exit root after all deposits of blocks <= b
func (l *zzC02L2) rootAfter(b uint64, start common.Hash) common.Hash {
	r := start
	for i, br := range l.bridges {
		if br.BlockNum <= b {
			r = l.roots[i]
		}
	}
	return r
}

type zzC02L1Info struct{ root common.Hash }

func (i zzC02L1Info) GetLatestFinalizedL1InfoRoot(ctx context.Context) (*treetypes.Root, *l1infotreesync.L1InfoTreeLeaf, error) {
	return &treetypes.Root{Hash: i.root, Index: 7}, nil, nil
}
func (i zzC02L1Info) GetFinalizedL1InfoTreeData(ctx context.Context) (treetypes.Proof, *l1infotreesync.L1InfoTreeLeaf, *treetypes.Root, error) {
	return treetypes.Proof{}, &l1infotreesync.L1InfoTreeLeaf{L1InfoTreeIndex: 7}, &treetypes.Root{Hash: i.root, Index: 7}, nil
}
func (zzC02L1Info) GetProofForGER(ctx context.Context, ger, root common.Hash) (*l1infotreesync.L1InfoTreeLeaf, treetypes.Proof, error) {
	return &l1infotreesync.L1InfoTreeLeaf{GlobalExitRoot: ger, L1InfoTreeIndex: 3}, treetypes.Proof{}, nil
}
func (zzC02L1Info) CheckIfClaimsArePartOfFinalizedL1InfoTree(r *treetypes.Root, claims []bridgesync.Claim) error {
	return nil
}

// zzC02Prover: the aggchain prover answers a request for (lastProvenBlock, requestedEndBlock] with a proof that ends at an
// arbitrary block of that range (it may prove less than was asked for); it can also have nothing yet.
type zzC02Prover struct{ l2 *zzC02L2 }

func (p zzC02Prover) GenerateAggchainProof(ctx context.Context, req *types.AggchainProofRequest) (*types.AggchainProof, error) {
	if req.RequestedEndBlock <= req.LastProvenBlock {
		return nil, errors.New("empty range")
	}
	end := req.RequestedEndBlock
	if zzverif.Bool("proverProvesLess") && req.RequestedEndBlock > req.LastProvenBlock+1 {
		end = req.RequestedEndBlock - 1
	}
	return &types.AggchainProof{LastProvenBlock: req.LastProvenBlock, EndBlock: end, AggchainParams: zzverif.Hash("aggchainParams"),
		SP1StarkProof: &types.SP1StarkProof{Version: "v", Proof: []byte{1}, Vkey: []byte{2}}}, nil
}
func (p zzC02Prover) GenerateOptimisticAggchainProof(req *types.AggchainProofRequest, sig []byte) (*types.AggchainProof, error) {
	return nil, errors.New("unused")
}

type zzC02GERs struct{}

func (zzC02GERs) GetInjectedGERsProofs(ctx context.Context, root *treetypes.Root, from, to uint64) (map[common.Hash]*agglayertypes.ProvenInsertedGERWithBlockNumber, error) {
	return nil, nil
}

type zzC02OptMode struct{}

func (zzC02OptMode) IsOptimisticModeOn() (bool, error) { return false, nil }

type zzC02LER struct{ ler common.Hash }

func (l *zzC02LER) GetLastLocalExitRoot() (common.Hash, error) { return l.ler, nil }

type zzC02Signer struct {
	signertypes.Signer
	signed []common.Hash
}

func (s *zzC02Signer) SignHash(ctx context.Context, h common.Hash) ([]byte, error) {
	s.signed = append(s.signed, h)
	sig := make([]byte, 65)
	sig[0] = byte(len(s.signed))
	return sig, nil
}
func (*zzC02Signer) PublicAddress() common.Address { return common.Address{1} }

type zzC02Rate struct{}

func (zzC02Rate) Call(msg string, allowToSleep bool) *time.Duration { return nil }
func (zzC02Rate) String() string                                    { return "none" }

type zzC02Notifier struct{ ch chan types.EpochEvent }

func (n *zzC02Notifier) Subscribe(id string) <-chan types.EpochEvent { return n.ch }
func (n *zzC02Notifier) Start(ctx context.Context)                   {}
func (n *zzC02Notifier) GetEpochStatus() types.EpochStatus            { return types.EpochStatus{} }
func (n *zzC02Notifier) String() string                               { return "zz" }

// zzC02Cert: one certificate as the model Agglayer received it.
type zzC02Cert struct {
	id       common.Hash
	cert     *agglayertypes.Certificate
	status   agglayertypes.CertificateStatus
	from, to uint64
}

// zzC02Agglayer: the model Agglayer. It accepts whatever is submitted, but records for each submission whether it is the one
// the protocol allows; verdicts on the open certificate arrive at arbitrary polls (a symbolic choice at every poll).
type zzC02Agglayer struct {
	agglayer.AgglayerClientInterface
	certs    []*zzC02Cert
	faults   bool
	startLER common.Hash
	l2       *zzC02L2
	signer   *zzC02Signer
	fep      bool
}

func (a *zzC02Agglayer) lastSettled() *zzC02Cert {
	var r *zzC02Cert
	for _, c := range a.certs {
		if c.status == agglayertypes.Settled {
			r = c
		}
	}
	return r
}

func (a *zzC02Agglayer) SendCertificate(ctx context.Context, c *agglayertypes.Certificate) (common.Hash, error) {
	if a.faults && zzverif.Bool("sendFails") {
		return common.Hash{}, errors.New("agglayer unavailable")
	}
	undecided := false
	for _, x := range a.certs {
		if x.status != agglayertypes.Settled && x.status != agglayertypes.InError {
			undecided = true
		}
	}
	zzverif.Assert("no certificate is submitted while an earlier one is undecided", !undecided)
	expH, expPrev, expFrom := uint64(0), a.startLER, uint64(1)
	if ls := a.lastSettled(); ls != nil {
		expH, expPrev, expFrom = ls.cert.Height+1, ls.cert.NewLocalExitRoot, ls.to+1
	}
	meta, err := types.NewCertificateMetadataFromHash(c.Metadata)
	if err != nil {
		zzverif.Assert("metadata decodes", false)
		return common.Hash{}, err
	}
	from, to := meta.FromBlock, meta.FromBlock+uint64(meta.Offset)
	zzverif.Assert("height = last settled height + 1 (0 at the start)", c.Height == expH)
	zzverif.Assert("starts from the last settled certificate's new exit root", c.PrevLocalExitRoot == expPrev)
	zzverif.Assert("starts at the block after the last settled certificate's last block", from == expFrom)
	zzverif.Assert("ends at a block the L2 syncer has", to >= from && to <= a.l2.last)
	zzverif.Assert("new exit root is the L2 exit root after its last block", c.NewLocalExitRoot == a.l2.rootAfter(to, a.startLER))
	k := 0
	for _, b := range a.l2.bridges {
		if b.BlockNum >= from && b.BlockNum <= to {
			zzverif.Assert("exit k is the k-th bridge of the range", k < len(c.BridgeExits) && c.BridgeExits[k].DestinationNetwork == b.DestinationNetwork)
			k++
		}
	}
	zzverif.Assert("no other exit", len(c.BridgeExits) == k)
	k = 0
	for _, cl := range a.l2.claims {
		if cl.BlockNum >= from && cl.BlockNum <= to {
			zzverif.Assert("imported exit k is the k-th claim of the range", k < len(c.ImportedBridgeExits) && c.ImportedBridgeExits[k].BridgeExit.DestinationNetwork == cl.DestinationNetwork)
			k++
		}
	}
	zzverif.Assert("no other imported exit", len(c.ImportedBridgeExits) == k)
	// the signature attached is the configured signer's answer over the commitment of this very certificate
	if n := len(a.signer.signed); n > 0 {
		want := c.PPHashToSign()
		var sig []byte
		if a.fep {
			want = c.FEPHashToSign()
			if d, ok := c.AggchainData.(*agglayertypes.AggchainDataProof); ok {
				sig = d.Signature
			}
		} else if d, ok := c.AggchainData.(*agglayertypes.AggchainDataSignature); ok {
			sig = d.Signature
		}
		zzverif.Assert("the last hash given to the signer is the commitment of the submitted certificate", a.signer.signed[n-1] == want)
		zzverif.Assert("the signer's answer is attached", len(sig) == 65 && sig[0] == byte(n))
	} else {
		zzverif.Assert("the certificate was signed", false)
	}
	id := common.Hash(zzverif.Hash("certID"))
	for _, x := range a.certs {
		zzverif.Assume(x.id != id)
		if x.status == agglayertypes.InError && x.cert.Height == c.Height {
			zzverif.Reach("replacement")
		}
	}
	if c.Height == 1 {
		zzverif.Reach("second height")
	}
	a.certs = append(a.certs, &zzC02Cert{id: id, cert: c, status: agglayertypes.Pending, from: from, to: to})
	return id, nil
}

func (a *zzC02Agglayer) GetCertificateHeader(ctx context.Context, id common.Hash) (*agglayertypes.CertificateHeader, error) {
	var x *zzC02Cert
	for _, c := range a.certs {
		if c.id == id {
			x = c
		}
	}
	if x == nil {
		return nil, errors.New("not found")
	}
	if a.faults && zzverif.Bool("pollFails") {
		return nil, errors.New("agglayer unavailable")
	}
	if x.status != agglayertypes.Settled && x.status != agglayertypes.InError {
		switch zzverif.U8("verdict") % 3 { // the Agglayer moves (or not) before it answers
		case 0:
			// still undecided: Pending (0), Proven (1) or Candidate (2)
			x.status = agglayertypes.CertificateStatus(zzverif.U8("openStatus") % 3)
		case 1:
			x.status = agglayertypes.Settled
		default:
			x.status = agglayertypes.InError
		}
	}
	p := x.cert.PrevLocalExitRoot
	return &agglayertypes.CertificateHeader{NetworkID: x.cert.NetworkID, Height: x.cert.Height, CertificateID: x.id, PreviousLocalExitRoot: &p,
		NewLocalExitRoot: x.cert.NewLocalExitRoot, Status: x.status, Metadata: x.cert.Metadata}, nil
}

// zzC02Feeder wraps the real status checker: at the start of every loop iteration (both cases of the loop call
// CheckPendingCertificatesStatus first) it puts the next event of the schedule - an epoch or a status tick, a symbolic
// choice - into the corresponding channel, so that the real select loop runs the schedule one event at a time.
type zzC02Feeder struct {
	inner types.CertificateStatusChecker
	epoch chan types.EpochEvent
	n     uint64
}

func (f *zzC02Feeder) feed() {
	f.n++
	// PREFIX fixes the first events of the schedule (base-3 digits, first event lowest: 1 epoch, 2 status tick, 0 either), so that
	// one deep exploration can be split into several obligations; beyond the prefix every event is a symbolic choice
	pre := zzverif.Param("PREFIX")
	for i := uint64(1); i < f.n; i++ {
		pre /= 3
	}
	epoch := pre%3 == 1
	if pre%3 == 0 {
		epoch = zzverif.Bool("nextIsEpoch")
	}
	if epoch {
		f.epoch <- types.EpochEvent{Epoch: f.n}
	} else {
		zzTickCh <- time.Time{}
	}
}
func (f *zzC02Feeder) CheckPendingCertificatesStatus(ctx context.Context) types.CertStatus {
	f.feed()
	return f.inner.CheckPendingCertificatesStatus(ctx)
}
func (f *zzC02Feeder) CheckInitialStatus(ctx context.Context, d time.Duration, s *types.AggsenderStatus) {
	f.inner.CheckInitialStatus(ctx, d, s)
}

// ZZVerif_C02_Loop runs the real send loop for K events (epoch or status tick, in any order) against the real storage, the real
// status checker and the real PP flow, with a model Agglayer that decides the open certificate at arbitrary polls and an L2 of
// NBLK blocks (bridges per MASK, claims per CMASK; MAXSIZE > 0 limits the certificate size so that ranges get cut). Every submission is judged by the model Agglayer; at the end the settled certificates are read in height order.
func ZZVerif_C02_Loop() {
	k := zzverif.Param("K")
	nblk := zzverif.Param("NBLK")
	mask := zzverif.Param("MASK")
	retry := zzverif.Param("RETRY") == 1
	grow := zzverif.Param("GROW") == 1
	faults := zzverif.Param("FAULTS") == 1
	ctx := context.Background()
	logger := log.GetDefaultLogger()
	net := zzverif.U32("networkID")
	startLER := common.Hash(zzverif.Hash("startLER"))
	zzverif.Assume(startLER != (common.Hash{}))
	l2 := &zzC02L2{net: net, max: uint64(nblk), grow: grow}
	if !grow {
		l2.last = uint64(nblk)
	}
	for i := 1; i <= nblk; i++ {
		if mask>>(i-1)&1 == 1 {
			l2.bridges = append(l2.bridges, bridgesync.Bridge{BlockNum: uint64(i), DepositCount: uint32(len(l2.roots)), DestinationNetwork: uint32(i),
				OriginNetwork: net, Amount: big.NewInt(int64(i))})
			l2.roots = append(l2.roots, zzverif.Hash("exitRoot"))
		}
	}
	// claims: block i holds one claim iff bit i-1 of CMASK is set (tagged by its destination network)
	cmask := zzverif.Param("CMASK")
	for i := 1; i <= nblk; i++ {
		if cmask>>(i-1)&1 == 1 {
			var zero common.Hash
			l2.claims = append(l2.claims, bridgesync.Claim{BlockNum: uint64(i), BlockPos: 1, GlobalIndex: bridgesync.GenerateGlobalIndex(false, 1, uint32(i)),
				OriginNetwork: net, DestinationNetwork: uint32(1000 + i), Amount: big.NewInt(int64(i)),
				GlobalExitRoot: crypto.Keccak256Hash(zero[:], zero[:])})
		}
	}
	st, err := aggsenderdb.NewAggSenderSQLStorage(logger, aggsenderdb.AggSenderSQLStorageConfig{DBPath: zzverif.TempDB("aggsender")})
	if err != nil {
		zzverif.Assert("storage opens", false)
		return
	}
	signer := &zzC02Signer{}
	ag := &zzC02Agglayer{faults: faults, startLER: startLER, l2: l2, signer: signer, fep: zzverif.Param("FLOW") == 1}
	l1 := zzC02L1Info{root: zzverif.Hash("l1InfoRoot")}
	base := flows.NewBaseFlow(logger, l2, st, l1, &zzC02LER{ler: startLER}, flows.NewBaseFlowConfig(uint(zzverif.Param("MAXSIZE")), 0, false))
	var flow types.AggsenderFlow = flows.NewPPFlow(logger, base, st, l1, l2, signer, false, 0)
	if zzverif.Param("FLOW") == 1 {
		// the aggchain-prover flow: same base flow, proofs from a model prover that may prove less than requested
		flow = flows.NewAggchainProverFlow(logger, flows.NewAggchainProverFlowConfigDefault(), base, zzC02Prover{l2: l2}, st, l1, l2, zzC02GERs{}, nil,
			signer, zzC02OptMode{}, nil)
	}
	zzTickCh = make(chan time.Time, 1)
	epochCh := make(chan types.EpochEvent, 1)
	feeder := &zzC02Feeder{inner: statuschecker.NewCertStatusChecker(logger, st, ag, net), epoch: epochCh}
	a := &AggSender{log: logger, epochNotifier: &zzC02Notifier{ch: epochCh}, storage: st, aggLayerClient: ag, certStatusChecker: feeder,
		cfg:    config.Config{CheckStatusCertificateInterval: cfgtypes.Duration{Duration: time.Hour}, RetryCertAfterInError: retry, MaxRetriesStoreCertificate: 1},
		status: &types.AggsenderStatus{}, rateLimiter: zzC02Rate{}, flow: flow, l2OriginNetwork: net}
	feeder.feed()
	a.sendCertificates(ctx, k)

	// the settled certificates, in height order, cover the L2 blocks without gap or overlap, each exit once and in order
	next, h, prev := uint64(1), uint64(0), startLER
	for _, c := range ag.certs {
		if c.status != agglayertypes.Settled {
			continue
		}
		zzverif.Assert("settled chain: heights 0,1,2,...", c.cert.Height == h)
		zzverif.Assert("settled chain: block ranges are contiguous from block 1", c.from == next && c.to >= c.from)
		zzverif.Assert("settled chain: exit roots are chained", c.cert.PrevLocalExitRoot == prev)
		next, h, prev = c.to+1, h+1, c.cert.NewLocalExitRoot
	}
	rows, errR := st.GetCertificateHeadersByStatus(nil)
	zzverif.Assert("storage readable", errR == nil)
	for i := range rows {
		for j := i + 1; j < len(rows); j++ {
			zzverif.Assert("one stored record per height", rows[i].Height != rows[j].Height)
		}
	}
	zzverif.Reach("end")
}
