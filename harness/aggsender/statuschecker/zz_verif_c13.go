package statuschecker

import (
	"context"
	"errors"

	"github.com/agglayer/aggkit/aggsender/types"
)

// ZZVerifInitialStatusOnce runs one iteration of CheckInitialStatus's loop body (poll the open certificates, then reconcile
// with the Agglayer) and returns the reconciliation error instead of sleeping and retrying.
func ZZVerifInitialStatusOnce(ctx context.Context, c types.CertificateStatusChecker) error {
	cc, ok := c.(*certStatusChecker)
	if !ok {
		return errors.New("zzverif: not a certStatusChecker")
	}
	cc.CheckPendingCertificatesStatus(ctx)
	return cc.checkLastCertificateFromAgglayer(ctx)
}
