package types

import (
	"github.com/agglayer/aggkit/bridgesync"
	"github.com/agglayer/aggkit/internal/zzverif"
)

func refCount(from, to uint64) uint64 { // number of blocks of [from,to] for from<=to, saturating semantic of the repo: [0,0] is empty
	return to - from + 1
}

// ZZVerif_C17_Gap: BlockRange.Gap never reports a gap between touching or overlapping ranges, and a reported
// gap lies strictly between the two ranges.
func ZZVerif_C17_Gap() {
	a := NewBlockRange(zzverif.U64("aFrom"), zzverif.U64("aTo"))
	b := NewBlockRange(zzverif.U64("bFrom"), zzverif.U64("bTo"))
	zzverif.Assume(a.FromBlock <= a.ToBlock && b.FromBlock <= b.ToBlock)
	g := a.Gap(b)
	// overlap: some x in both; touching: a.To+1 == b.From or b.To+1 == a.From (no overflow)
	overlap := a.FromBlock <= b.ToBlock && b.FromBlock <= a.ToBlock
	touch := (a.ToBlock < b.FromBlock && a.ToBlock+1 == b.FromBlock) || (b.ToBlock < a.FromBlock && b.ToBlock+1 == a.FromBlock)
	if overlap || touch {
		zzverif.Assert("no gap between touching or overlapping ranges", g.IsEmpty())
		return
	}
	zzverif.Reach("disjoint")
	// disjoint and not touching: the gap is exactly the blocks strictly between
	if a.ToBlock < b.FromBlock {
		zzverif.Assert("gap a<b exact", g.FromBlock == a.ToBlock+1 && g.ToBlock == b.FromBlock-1 && !g.IsEmpty())
	} else {
		zzverif.Assert("gap b<a exact", g.FromBlock == b.ToBlock+1 && g.ToBlock == a.FromBlock-1 && !g.IsEmpty())
	}
}

// zzParams builds certificate build parameters over the block range [from, from+span] with NB bridges and NC claims whose block
// numbers are arbitrary but ordered inside the range (as the bridge syncer returns them); deposit counts / global indexes
// identify the events.
func zzParams(nb, nc int, span uint64) *CertificateBuildParams {
	from := zzverif.U64("from")
	zzverif.Assume(from >= 1 && from < 1<<40)
	p := &CertificateBuildParams{FromBlock: from, ToBlock: from + span, CreatedAt: zzverif.U32("createdAt"), RetryCount: int(zzverif.U8("retry")),
		L1InfoTreeRootFromWhichToProve: zzverif.Hash("l1root"), L1InfoTreeLeafCount: zzverif.U32("leafCount"),
		CertificateType: CertificateType(zzverif.Int("certType", 1, 2))}
	prev := from
	for i := 0; i < nb; i++ {
		bn := zzverif.U64("bBlock")
		zzverif.Assume(bn >= prev && bn <= from+span)
		prev = bn
		p.Bridges = append(p.Bridges, bridgesync.Bridge{BlockNum: bn, BlockPos: uint64(i), DepositCount: uint32(100 + i),
			Metadata: make([]byte, 10*(i+1))})
	}
	prev = from
	for i := 0; i < nc; i++ {
		bn := zzverif.U64("cBlock")
		zzverif.Assume(bn >= prev && bn <= from+span)
		prev = bn
		p.Claims = append(p.Claims, bridgesync.Claim{BlockNum: bn, BlockPos: uint64(50 + i), OriginNetwork: uint32(200 + i), Metadata: make([]byte, 7*(i+1))})
	}
	return p
}

// ZZVerif_C17_Range: cutting the range keeps the first block and exactly the events of the kept blocks in their order; every
// other field is copied.
func ZZVerif_C17_Range() {
	nb, nc := zzverif.Param("NB"), zzverif.Param("NC")
	span := uint64(zzverif.Param("SPAN"))
	p := zzParams(nb, nc, span)
	to := zzverif.U64("newTo")
	zzverif.Assume(to >= p.FromBlock && to <= p.ToBlock)
	r, err := p.Range(p.FromBlock, to)
	zzverif.Assert("cut succeeds", err == nil && r != nil)
	if err != nil || r == nil {
		return
	}
	zzverif.Assert("same first block, requested last block", r.FromBlock == p.FromBlock && r.ToBlock == to)
	zzverif.Assert("other fields copied", r.CreatedAt == p.CreatedAt && r.RetryCount == p.RetryCount && r.LastSentCertificate == p.LastSentCertificate &&
		r.L1InfoTreeRootFromWhichToProve == p.L1InfoTreeRootFromWhichToProve && r.L1InfoTreeLeafCount == p.L1InfoTreeLeafCount && r.CertificateType == p.CertificateType)
	k := 0
	for _, b := range p.Bridges {
		if b.BlockNum <= to {
			zzverif.Assert("kept bridge present at its place", k < len(r.Bridges) && r.Bridges[k].DepositCount == b.DepositCount && r.Bridges[k].BlockNum == b.BlockNum && len(r.Bridges[k].Metadata) == len(b.Metadata))
			k++
		}
	}
	zzverif.Assert("no other bridge", len(r.Bridges) == k)
	k = 0
	for _, c := range p.Claims {
		if c.BlockNum <= to {
			zzverif.Assert("kept claim present at its place", k < len(r.Claims) && r.Claims[k].OriginNetwork == c.OriginNetwork && r.Claims[k].BlockNum == c.BlockNum)
			k++
		}
	}
	zzverif.Assert("no other claim", len(r.Claims) == k)
	zzverif.Reach("end")
}
