package types

import "github.com/agglayer/aggkit/internal/zzverif"

func refCount(from, to uint64) uint64 { // number of blocks of [from,to] for from<=to, saturating semantic of the repo: [0,0] is empty
	return to - from + 1
}

// ZZVerif_C17_Gap: BlockRange.Gap never reports a gap between touching or overlapping ranges, and a reported
// gap lies strictly between the two ranges.
func ZZVerif_C17_Gap() {
	a := NewBlockRange(zzverif.U64("aFrom"), zzverif.U64("aTo"))
	b := NewBlockRange(zzverif.U64("bFrom"), zzverif.U64("bTo"))
	zzverif.Assume(a.FromBlock <= a.ToBlock && b.FromBlock <= b.ToBlock)
	g := a.Gap(b)
	// overlap: some x in both; touching: a.To+1 == b.From or b.To+1 == a.From (no overflow)
	overlap := a.FromBlock <= b.ToBlock && b.FromBlock <= a.ToBlock
	touch := (a.ToBlock < b.FromBlock && a.ToBlock+1 == b.FromBlock) || (b.ToBlock < a.FromBlock && b.ToBlock+1 == a.FromBlock)
	if overlap || touch {
		zzverif.Assert("no gap between touching or overlapping ranges", g.IsEmpty())
		return
	}
	zzverif.Reach("disjoint")
	// disjoint and not touching: the gap is exactly the blocks strictly between
	if a.ToBlock < b.FromBlock {
		zzverif.Assert("gap a<b exact", g.FromBlock == a.ToBlock+1 && g.ToBlock == b.FromBlock-1 && !g.IsEmpty())
	} else {
		zzverif.Assert("gap b<a exact", g.FromBlock == b.ToBlock+1 && g.ToBlock == a.FromBlock-1 && !g.IsEmpty())
	}
}
