package sync

import (
	"context"
	"errors"
	"math/big"

	"github.com/agglayer/aggkit/internal/zzverif"
	"github.com/agglayer/aggkit/log"
	aggkittypes "github.com/agglayer/aggkit/types"
	"github.com/ethereum/go-ethereum/common"
	"github.com/ethereum/go-ethereum/core/types"
)

// zzChain is the node as the downloader sees it, for an arbitrary fixed chain: x is an arbitrary block that carries watched logs
// (a Skolem witness: the claims below hold for every such block). A range query returns up to two blocks with watched logs,
// in increasing order inside the range, and always contains x when x lies in the range. The reported tip grows by an arbitrary
// amount between polls; the finalized pointer is arbitrary at every poll, or the call fails (at most once per run).
type zzChain struct {
	EVMDownloaderInterface
	x        uint64
	start    uint64
	tip      uint64
	finFails int
}

func (c *zzChain) WaitForNewBlocks(ctx context.Context, lastBlockSeen uint64) uint64 {
	t := zzverif.U64("tip")
	zzverif.Assume(t > lastBlockSeen)
	zzverif.Assume(t >= c.tip)
	zzverif.Assume(t < 1<<40)
	if lastBlockSeen == 0 {
		// environment assumption: the syncer starts at most one block beyond the node's tip (it starts at its last processed
		// block + 1, and the node it talks to is not behind what the syncer has already processed)
		zzverif.Assume(c.start <= t+1)
	}
	c.tip = t
	return t
}

func (c *zzChain) GetLastFinalizedBlock(ctx context.Context) (*types.Header, error) {
	if c.finFails < 1 && zzverif.Bool("finalizedCallFails") {
		c.finFails++ // a failed poll does not count as an iteration of the loop: bound the number of failures
		return nil, errors.New("rpc error")
	}
	f := zzverif.U64("finalized")
	zzverif.Assume(f < 1<<41)
	return &types.Header{Number: new(big.Int).SetUint64(f)}, nil
}

func (c *zzChain) GetEventsByBlockRange(ctx context.Context, fromBlock, toBlock uint64) EVMBlocks {
	var out EVMBlocks
	n := zzverif.Int("nBlocks", 0, 2)
	b1, b2 := zzverif.U64("b1"), zzverif.U64("b2")
	inRange := c.x >= fromBlock && c.x <= toBlock
	switch n {
	case 0:
		zzverif.Assume(!inRange)
	case 1:
		zzverif.Assume(b1 >= fromBlock && b1 <= toBlock)
		zzverif.Assume(!inRange || b1 == c.x)
		out = append(out, &EVMBlock{EVMBlockHeader: EVMBlockHeader{Num: b1}, Events: []interface{}{b1}})
	case 2:
		zzverif.Assume(b1 >= fromBlock && b1 < b2 && b2 <= toBlock)
		zzverif.Assume(!inRange || b1 == c.x || b2 == c.x)
		out = append(out, &EVMBlock{EVMBlockHeader: EVMBlockHeader{Num: b1}, Events: []interface{}{b1}},
			&EVMBlock{EVMBlockHeader: EVMBlockHeader{Num: b2}, Events: []interface{}{b2}})
	}
	return out
}

func (c *zzChain) GetBlockHeader(ctx context.Context, blockNum uint64) (EVMBlockHeader, bool) {
	return EVMBlockHeader{Num: blockNum, Hash: common.Hash{1}}, false
}

// ZZVerif_C05_Download: ITER iterations of the real Download loop from an arbitrary start block with an arbitrary chunk size
// >= 1. Whatever the tip and the finalized pointer do between polls: blocks are handed over in strictly increasing order, all
// inside the chain seen so far and not before the start block; a block handed over with events is one the node returned for
// the requested range with exactly its events; and the arbitrary block x that carries watched logs is handed over exactly once
// if the highest block handed over (the last-processed marker) has reached it, and at most once otherwise.
func ZZVerif_C05_Download() {
	iters := zzverif.Param("ITER")
	chunk := zzverif.U64("chunk")
	start := zzverif.U64("start")
	c := &zzChain{x: zzverif.U64("x"), start: start}
	zzverif.Assume(chunk >= 1 && chunk < 1<<32 && start >= 1 && start < 1<<40 && c.x >= start && c.x < 1<<40)
	finality := aggkittypes.LatestBlock
	if zzverif.Param("FINALIZED") == 1 {
		finality = aggkittypes.FinalizedBlock
	}
	d := &EVMDownloader{syncBlockChunkSize: chunk, EVMDownloaderInterface: c, log: log.GetDefaultLogger(), finalizedBlockType: finality}
	d.setStopDownloaderOnIterationN(iters)
	ch := make(chan EVMBlock, 100)
	d.Download(context.Background(), start, ch)
	var marker uint64
	timesX := 0
	first := true
	for len(ch) > 0 {
		b := <-ch
		if !first {
			zzverif.Assert("blocks handed over in strictly increasing order", b.Num > marker)
		}
		first = false
		zzverif.Assert("block inside the chain seen so far and not before the start block", b.Num <= c.tip && b.Num >= start)
		if len(b.Events) > 0 {
			zzverif.Assert("all events of the block, none from other blocks", len(b.Events) == 1 && b.Events[0].(uint64) == b.Num)
			if b.Num == c.x {
				timesX++
			}
		} else {
			zzverif.Assert("a block handed over without events is not a block with watched logs", b.Num != c.x)
		}
		marker = b.Num
	}
	if !first {
		zzverif.Reach("delivered")
	}
	zzverif.Assert("a block with watched logs is handed over at most once", timesX <= 1)
	if !first && c.x <= marker {
		zzverif.Reach("passed")
		zzverif.Assert("a block with watched logs at or below the last-processed marker was handed over", timesX == 1)
	}
}
