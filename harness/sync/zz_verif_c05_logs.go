package sync

import (
	"context"
	"math/big"
	"time"

	"github.com/agglayer/aggkit/internal/zzverif"
	aggkittypes "github.com/agglayer/aggkit/types"
	ethereum "github.com/ethereum/go-ethereum"
	"github.com/ethereum/go-ethereum/common"
	"github.com/ethereum/go-ethereum/core/types"
)

// zzLogNode: a node that answers a log query with a fixed list of logs and serves headers by number; `stale` header queries
// answer with another fork's header first (a reorg between the log query and the header query).
type zzLogNode struct {
	aggkittypes.BaseEthereumClienter
	logs    []types.Log
	salt    common.Hash
	stale     int // number of header answers that come from another fork ...
	staleFrom int // ... starting with this header query (0 = the first one)
	hqueries  int
	queries   int
}

func (n *zzLogNode) header(num uint64, fork common.Hash) *types.Header {
	return &types.Header{Number: new(big.Int).SetUint64(num), ParentHash: fork, Time: num}
}
func (n *zzLogNode) FilterLogs(ctx context.Context, q ethereum.FilterQuery) ([]types.Log, error) {
	n.queries++
	var out []types.Log
	for _, l := range n.logs {
		if l.BlockNumber >= q.FromBlock.Uint64() && l.BlockNumber <= q.ToBlock.Uint64() {
			out = append(out, l)
		}
	}
	return out, nil
}
func (n *zzLogNode) HeaderByNumber(ctx context.Context, num *big.Int) (*types.Header, error) {
	q := n.hqueries
	n.hqueries++
	if q >= n.staleFrom && n.stale > 0 {
		n.stale--
		return n.header(num.Uint64(), common.Hash{0xee}), nil
	}
	return n.header(num.Uint64(), n.salt), nil
}

type zzTag struct {
	block uint64
	index uint
	topic common.Hash
}

// ZZVerif_C05_Logs: the real GetEventsByBlockRange (log filtering, grouping per block, header cross-check, appender dispatch)
// over N logs with arbitrary non-decreasing block numbers (several per block), topics that are watched (two kinds) or not,
// removed or not. The result holds exactly the blocks that have a watched, not removed log, in increasing order, each with the
// events of its own such logs in log order; with STALE header answers from another fork the query is retried, and after the
// retry limit nothing (nil) is returned rather than blocks with a wrong hash.
func ZZVerif_C05_Logs() {
	nlogs := zzverif.Param("N")
	stale := zzverif.Param("STALE")
	ctx := context.Background()
	topicA, topicB, topicX := common.Hash{0xa}, common.Hash{0xb}, common.Hash{0xc}
	node := &zzLogNode{salt: zzverif.Hash("fork"), stale: stale}
	if stale > 0 && stale <= MaxRetryCountBlockHashMismatch {
		// the reorg may show on any header query: on the first event block or on a later one
		node.staleFrom = zzverif.Int("staleFrom", 0, 2)
	}
	zzverif.Assume(node.salt != common.Hash{0xee})
	from := zzverif.U64("from") >> 8
	prev := from
	var want []zzTag
	for i := 0; i < nlogs; i++ {
		b := prev + uint64(zzverif.U8("gap")%3)
		prev = b
		var topic common.Hash
		switch zzverif.U8("topic") % 3 {
		case 0:
			topic = topicA
		case 1:
			topic = topicB
		default:
			topic = topicX
		}
		removed := zzverif.Bool("removed")
		node.logs = append(node.logs, types.Log{Address: common.Address{1}, Topics: []common.Hash{topic}, BlockNumber: b,
			BlockHash: node.header(b, node.salt).Hash(), Index: uint(i), Removed: removed})
		if !removed && topic != topicX {
			want = append(want, zzTag{b, uint(i), topic})
		}
	}
	appender := LogAppenderMap{}
	for _, tp := range []common.Hash{topicA, topicB} {
		tp := tp
		appender[tp] = func(b *EVMBlock, l types.Log) error {
			b.Events = append(b.Events, zzTag{l.BlockNumber, l.Index, tp})
			return nil
		}
	}
	rh := &RetryHandler{RetryAfterErrorPeriod: time.Millisecond, MaxRetryAttemptsAfterError: 5}
	d := NewEVMDownloaderImplementation("zz", node, big.NewInt(-2), time.Millisecond, appender, []common.Address{{1}}, rh, nil)
	blocks := d.GetEventsByBlockRange(ctx, from, prev)
	// how many header queries precede the first consistent attempt: each attempt stops at its first stale header
	if stale > MaxRetryCountBlockHashMismatch && len(want) > 0 {
		zzverif.Assert("hash mismatch on every attempt: nothing is returned", blocks == nil)
		zzverif.Reach("gaveup")
		return
	}
	k := 0
	for _, b := range blocks {
		zzverif.Assert("block has events", len(b.Events) > 0)
		zzverif.Assert("blocks in strictly increasing order", k == 0 || want[k-1].block < b.Num)
		zzverif.Assert("block header belongs to the fork the logs came from", b.Hash == node.header(b.Num, node.salt).Hash() && b.ParentHash == node.salt)
		for _, e := range b.Events {
			t, ok := e.(zzTag)
			zzverif.Assert("event k is the k-th watched, not removed log, in its own block", ok && k < len(want) && t == want[k] && t.block == b.Num)
			k++
		}
	}
	zzverif.Assert("every watched, not removed log became an event", k == len(want))
	if len(want) > 0 {
		zzverif.Reach("events")
	}
	zzverif.Reach("end")
}
