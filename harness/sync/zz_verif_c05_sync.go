package sync

import (
	"context"

	dbtypes "github.com/agglayer/aggkit/db/types"
	"github.com/agglayer/aggkit/internal/zzverif"
	"github.com/agglayer/aggkit/log"
	"github.com/agglayer/aggkit/reorgdetector"
	aggkittypes "github.com/agglayer/aggkit/types"
	"github.com/ethereum/go-ethereum/common"
)

// zzSyncWorld: a chain of TIP blocks in two versions. Version A is what the node sees first; version B replaces every block
// from the fork point on (other hashes, other placement of watched events). The fake downloader answers like the real one
// (C05.a-c): the blocks of the current version with a watched event, from the requested block on, in order.
type zzSyncWorld struct {
	tip, fork, fin uint64
	evA, evB       []bool // index = block number
	version        int    // 0: A, 1: B
	downloads      []uint64
	pushed         int
	// the store
	nums     []uint64
	hashes   []common.Hash
	handed   int
	tracked  []uint64
	sub      *reorgdetector.Subscription
	stop     context.CancelFunc
	notified uint64
}

func (w *zzSyncWorld) hash(version int, n uint64) common.Hash {
	if version == 1 && n >= w.fork {
		return common.Hash{2, byte(n)}
	}
	return common.Hash{1, byte(n)}
}

type zzSyncDl struct{ w *zzSyncWorld }

func (d zzSyncDl) RuntimeData(ctx context.Context) (RuntimeData, error) { return RuntimeData{}, nil }
func (d zzSyncDl) Download(ctx context.Context, from uint64, ch chan EVMBlock) {
	w := d.w
	w.downloads = append(w.downloads, from)
	ev := w.evA
	if w.version == 1 {
		ev = w.evB
	}
	var out []EVMBlock
	for n := from; n <= w.tip; n++ {
		if ev[n] {
			out = append(out, EVMBlock{EVMBlockHeader: EVMBlockHeader{Num: n, Hash: w.hash(w.version, n)}, IsFinalizedBlock: n <= w.fin, Events: []interface{}{n}})
		}
	}
	if w.version == 1 {
		// the end of the run: a last (finalized, empty) block after the tip
		out = append(out, EVMBlock{EVMBlockHeader: EVMBlockHeader{Num: w.tip + 1, Hash: w.hash(1, w.tip+1)}, IsFinalizedBlock: true})
	}
	w.pushed, w.handed = len(out), 0
	for _, b := range out {
		ch <- b
	}
}

type zzSyncProc struct {
	processorInterface
	w *zzSyncWorld
}

func (p zzSyncProc) GetLastProcessedBlock(ctx context.Context) (uint64, error) {
	if len(p.w.nums) == 0 {
		return 0, nil
	}
	return p.w.nums[len(p.w.nums)-1], nil
}
func (p zzSyncProc) ProcessBlock(ctx context.Context, b Block) error {
	w := p.w
	w.nums = append(w.nums, b.Num)
	w.hashes = append(w.hashes, b.Hash)
	w.handed++
	if w.handed == w.pushed {
		if w.version == 0 {
			// everything of version A is stored: the chain switches to version B, and the reorg detector reports the first
			// tracked block whose hash changed
			w.version = 1
			for _, n := range w.tracked {
				if n >= w.fork {
					w.notified = n
					w.sub.ReorgedBlock <- n
					break
				}
			}
		} else {
			w.stop()
		}
	}
	return nil
}
func (p zzSyncProc) Reorg(ctx context.Context, first uint64) error {
	w := p.w
	k := 0
	for k < len(w.nums) && w.nums[k] < first {
		k++
	}
	w.nums, w.hashes = w.nums[:k], w.hashes[:k]
	return nil
}

type zzSyncRD struct{ w *zzSyncWorld }

func (r zzSyncRD) Subscribe(id string) (*reorgdetector.Subscription, error) { return r.w.sub, nil }
func (r zzSyncRD) AddBlockToTrack(ctx context.Context, id string, num uint64, hash common.Hash) error {
	r.w.tracked = append(r.w.tracked, num)
	return nil
}
func (r zzSyncRD) GetFinalizedBlockType() aggkittypes.BlockNumberFinality {
	return aggkittypes.FinalizedBlock
}
func (r zzSyncRD) String() string { return "zzSyncRD" }

type zzCompatOK struct{}

func (zzCompatOK) Check(ctx context.Context, tx dbtypes.Querier) error { return nil }

// ZZVerif_C05_SyncReorg: the real EVMDriver.Sync loop over a fake downloader, store and reorg detector. The node stores version A
// of a chain of TIP blocks; then every block from an arbitrary fork point on is replaced (version B moves, adds and removes
// watched events), and the detector reports the first tracked (stored, not finalized) block whose hash changed - the fork point
// itself may lie below it. When the driver has caught up again the store holds exactly the blocks of version B that carry a
// watched event, once each and in order: no event between the fork point and the reported block is lost.
func ZZVerif_C05_SyncReorg() {
	zzverif.InlineGo()
	tip := uint64(zzverif.Param("TIP"))
	w := &zzSyncWorld{tip: tip, sub: &reorgdetector.Subscription{ReorgedBlock: make(chan uint64, 1), ReorgProcessed: make(chan bool, 1)}}
	w.fork = uint64(zzverif.Int("fork", 1, int(tip)))
	w.fin = uint64(zzverif.Int("finalized", 0, int(tip)))
	zzverif.Assume(w.fin < w.fork) // finalized blocks are not replaced
	w.evA, w.evB = make([]bool, tip+2), make([]bool, tip+2)
	hit := false
	for n := uint64(1); n <= tip; n++ {
		w.evA[n] = zzverif.Bool("eventA")
		w.evB[n] = w.evA[n]
		if n >= w.fork {
			w.evB[n] = zzverif.Bool("eventB")
			hit = hit || w.evA[n]
		}
	}
	zzverif.Assume(hit) // the node has stored a block that is replaced (otherwise there is nothing to rewind)
	ctx, stop := context.WithCancel(context.Background())
	w.stop = stop
	d := &EVMDriver{reorgDetector: zzSyncRD{w}, reorgSub: w.sub, processor: zzSyncProc{w: w}, downloader: zzSyncDl{w}, reorgDetectorID: "syncer",
		downloadBufferSize: 16, rh: &RetryHandler{MaxRetryAttemptsAfterError: -1}, log: log.GetDefaultLogger(), compatibilityChecker: zzCompatOK{}}
	d.Sync(ctx)
	zzverif.Assert("the reorg was reported and the download restarted", len(w.downloads) == 2 && w.notified >= w.fork)
	k := 0
	for n := uint64(1); n <= tip; n++ {
		if !w.evB[n] {
			continue
		}
		ok := k < len(w.nums) && w.nums[k] == n && w.hashes[k] == w.hash(1, n)
		zzverif.Assert("the store holds every block of the final chain that carries a watched event, in order, and nothing else", ok)
		k++
	}
	zzverif.Assert("the store ends with the last block after the tip and holds nothing else", len(w.nums) == k+1 && w.nums[k] == tip+1)
	if w.notified > w.fork {
		zzverif.Reach("fork below the reported block")
	}
	zzverif.Reach("end")
}
