package sync

import (
	"context"
	"errors"

	"github.com/agglayer/aggkit/internal/zzverif"
	"github.com/agglayer/aggkit/log"
	"github.com/agglayer/aggkit/reorgdetector"
	aggkittypes "github.com/agglayer/aggkit/types"
	"github.com/ethereum/go-ethereum/common"
)

type zzCall struct {
	what string
	num  uint64
	ok   bool
}

type zzLog struct{ calls []zzCall }

type zzRD struct {
	l         *zzLog
	failTrack int
}

func (r *zzRD) Subscribe(id string) (*reorgdetector.Subscription, error) { return nil, nil }
func (r *zzRD) AddBlockToTrack(ctx context.Context, id string, num uint64, hash common.Hash) error {
	if r.failTrack > 0 {
		r.failTrack--
		r.l.calls = append(r.l.calls, zzCall{"track", num, false})
		return errors.New("transient tracker error")
	}
	r.l.calls = append(r.l.calls, zzCall{"track", num, true})
	return nil
}
func (r *zzRD) GetFinalizedBlockType() aggkittypes.BlockNumberFinality {
	return aggkittypes.FinalizedBlock
}
func (r *zzRD) String() string { return "zzRD" }

type zzProc struct {
	processorInterface
	l            *zzLog
	failProc     int
	inconsistent bool
	failReorg    int
}

func (p *zzProc) ProcessBlock(ctx context.Context, b Block) error {
	if p.failProc > 0 {
		p.failProc--
		p.l.calls = append(p.l.calls, zzCall{"process", b.Num, false})
		return errors.New("transient storage error")
	}
	if p.inconsistent {
		p.l.calls = append(p.l.calls, zzCall{"process", b.Num, false})
		return ErrInconsistentState
	}
	p.l.calls = append(p.l.calls, zzCall{"process", b.Num, true})
	return nil
}

func (p *zzProc) Reorg(ctx context.Context, first uint64) error {
	if p.failReorg > 0 {
		p.failReorg--
		p.l.calls = append(p.l.calls, zzCall{"reorg", first, false})
		return errors.New("transient storage error")
	}
	p.l.calls = append(p.l.calls, zzCall{"reorg", first, true})
	return nil
}

// ZZVerif_C05_Driver: one delivered block through the real handleNewBlock with transient failures of the tracker and of the
// store. A non-finalized block is tracked (successfully) before the first attempt to process it; a finalized block is not
// tracked; the block is processed successfully exactly once, after any number of transient failures; on ErrInconsistentState
// the downloader is cancelled and the block is not retried.
func ZZVerif_C05_Driver() {
	l := &zzLog{}
	rd := &zzRD{l: l, failTrack: zzverif.Int("failTrack", 0, 2)}
	p := &zzProc{l: l, failProc: zzverif.Int("failProc", 0, 2), inconsistent: zzverif.Bool("inconsistent")}
	d := &EVMDriver{reorgDetector: rd, processor: p, reorgDetectorID: "syncer", rh: &RetryHandler{MaxRetryAttemptsAfterError: -1}, log: log.GetDefaultLogger()}
	ctx, cancel := context.WithCancel(context.Background())
	b := EVMBlock{EVMBlockHeader: EVMBlockHeader{Num: zzverif.U64("num"), Hash: zzverif.Hash("hash")}, IsFinalizedBlock: zzverif.Bool("finalized"), Events: []interface{}{1}}
	d.handleNewBlock(ctx, cancel, b)
	firstProcess, lastGoodTrack, nGoodProcess, nTrack := -1, -1, 0, 0
	for i, c := range l.calls {
		zzverif.Assert("every call is about the delivered block", c.num == b.Num)
		if c.what == "track" {
			nTrack++
			if c.ok {
				lastGoodTrack = i
			}
		}
		if c.what == "process" {
			if firstProcess < 0 {
				firstProcess = i
			}
			if c.ok {
				nGoodProcess++
			}
		}
	}
	if b.IsFinalizedBlock {
		zzverif.Assert("a finalized block is not tracked", nTrack == 0)
	} else {
		zzverif.Reach("tracked")
		zzverif.Assert("a non-finalized block is tracked successfully before it is processed", lastGoodTrack >= 0 && firstProcess > lastGoodTrack)
	}
	if p.inconsistent {
		zzverif.Reach("inconsistent")
		zzverif.Assert("inconsistent state: downloader cancelled", ctx.Err() != nil)
		zzverif.Assert("inconsistent state: block not recorded", nGoodProcess == 0)
		last := l.calls[len(l.calls)-1]
		zzverif.Assert("inconsistent state: no retry after the refusal", last.what == "process" && !last.ok)
	} else {
		zzverif.Assert("the block is processed successfully exactly once", nGoodProcess == 1 && l.calls[len(l.calls)-1].ok)
		zzverif.Assert("downloader keeps running", ctx.Err() == nil)
	}
}

// ZZVerif_C06_HandleReorg: the driver stops the downloader, rewinds the store to the notified block (retrying transient
// failures) and only then acknowledges to the detector.
func ZZVerif_C06_HandleReorg() {
	l := &zzLog{}
	p := &zzProc{l: l, failReorg: zzverif.Int("failReorg", 0, 2)}
	sub := &reorgdetector.Subscription{ReorgedBlock: make(chan uint64, 2), ReorgProcessed: make(chan bool, 2)}
	d := &EVMDriver{processor: p, reorgSub: sub, reorgDetectorID: "syncer", rh: &RetryHandler{MaxRetryAttemptsAfterError: -1}, log: log.GetDefaultLogger()}
	ctx, cancel := context.WithCancel(context.Background())
	first := zzverif.U64("firstReorged")
	d.handleReorg(ctx, cancel, first)
	zzverif.Assert("downloader cancelled", ctx.Err() != nil)
	n := len(l.calls)
	zzverif.Assert("store rewound to the notified block, last attempt succeeded", n >= 1 && l.calls[n-1].ok && l.calls[n-1].what == "reorg" && l.calls[n-1].num == first)
	for i := 0; i < n-1; i++ {
		zzverif.Assert("earlier attempts were failures about the same block", !l.calls[i].ok && l.calls[i].num == first)
	}
	zzverif.Assert("acknowledged exactly once after the rewind", len(sub.ReorgProcessed) == 1)
}
