package tree

import (
	"context"
	"database/sql"

	"github.com/agglayer/aggkit/db"
	"github.com/agglayer/aggkit/internal/zzverif"
	"github.com/agglayer/aggkit/tree/migrations"
	"github.com/agglayer/aggkit/tree/types"
	"github.com/ethereum/go-ethereum/common"
	"github.com/ethereum/go-ethereum/crypto"
)

// zzRefContract is a transliteration of DepositContractBase (_addLeaf / getRoot) of the bridge contract.
type zzRefContract struct {
	branch [32]common.Hash
	count  uint32
}

func (c *zzRefContract) addLeaf(leaf common.Hash) {
	node := leaf
	c.count++
	size := c.count
	for h := 0; h < 32; h++ {
		if (size>>h)&1 == 1 {
			c.branch[h] = node
			return
		}
		node = crypto.Keccak256Hash(c.branch[h][:], node[:])
	}
}

func (c *zzRefContract) getRoot() common.Hash {
	var node, zero common.Hash
	size := c.count
	for h := 0; h < 32; h++ {
		if (size>>h)&1 == 1 {
			node = crypto.Keccak256Hash(c.branch[h][:], node[:])
		} else {
			node = crypto.Keccak256Hash(node[:], zero[:])
		}
		zero = crypto.Keccak256Hash(zero[:], zero[:])
	}
	return node
}

func zzOpenTreeDB() *sql.DB {
	path := zzverif.TempDB("tree")
	if err := migrations.RunMigrations(path); err != nil {
		panic(err)
	}
	database, err := db.NewSQLiteDB(path)
	if err != nil {
		panic(err)
	}
	return database
}

// ZZVerif_C01_FrontierStep: one AddLeaf from an arbitrary frontier at an arbitrary leaf index n, against one _addLeaf of the
// contract from a state that agrees with the frontier on the levels where bit_h(n) is set.
func ZZVerif_C01_FrontierStep() {
	database := zzOpenTreeDB()
	// the leaf index is a concrete parameter (low indices, 2^k carry boundaries, the top of the range); the frontier, the
	// contract's other branch entries and the leaf are arbitrary
	n := uint32(zzverif.Param("N"))
	var l [32]common.Hash
	ref := &zzRefContract{count: n}
	for h := 0; h < 32; h++ {
		l[h] = zzverif.Hash("L")
		b := common.Hash(zzverif.Hash("B"))
		if (n>>h)&1 == 1 {
			b = l[h]
		}
		ref.branch[h] = b
	}
	t := &AppendOnlyTree{Tree: newTree(database, ""), lastIndex: int64(n) - 1, lastLeftCache: l}
	x := common.Hash(zzverif.Hash("leaf"))
	blk := zzverif.U64("blk")
	pos := zzverif.U64("pos")
	zzverif.Assume(blk < 1<<62 && pos < 1<<62)
	ctx := context.Background()
	tx, err := db.NewTx(ctx, database)
	zzverif.Assert("begin", err == nil)
	err = t.AddLeaf(tx, blk, pos, types.Leaf{Index: n, Hash: x})
	zzverif.Assert("AddLeaf succeeds", err == nil)
	zzverif.Assert("commit", tx.Commit() == nil)
	ref.addLeaf(x)
	want := ref.getRoot()
	got, err := t.GetRootByIndex(ctx, n)
	zzverif.Assert("root row readable by index", err == nil)
	zzverif.Observe("root", got.Hash)
	zzverif.Assert("root == contract root after deposit n+1", got.Hash == want)
	zzverif.Assert("root row carries index, block and position", got.Index == n && got.BlockNum == blk && got.BlockPosition == pos)
	zzverif.Assert("lastIndex advanced", t.lastIndex == int64(n))
	inv := true
	for h := 0; h < 32; h++ {
		if ((n+1)>>h)&1 == 1 && t.lastLeftCache[h] != ref.branch[h] {
			inv = false
		}
	}
	zzverif.Assert("frontier invariant for n+1", inv)
	zzverif.Reach("end")
}

// ZZVerif_C01_WrongIndex: a leaf whose index is not lastIndex+1 (after the cache rebuild) is refused and nothing is written.
func ZZVerif_C01_WrongIndex() {
	database := zzOpenTreeDB()
	ctx := context.Background()
	t := NewAppendOnlyTree(database, "")
	k := zzverif.Param("K")
	for i := 0; i < k; i++ {
		tx, _ := db.NewTx(ctx, database)
		leaf := common.Hash(zzverif.Hash("leaf"))
		zzverif.Assume(leaf != common.Hash{})
		err := t.AddLeaf(tx, uint64(i+1), 0, types.Leaf{Index: uint32(i), Hash: leaf})
		zzverif.Assert("append ok", err == nil && tx.Commit() == nil)
	}
	if zzverif.Bool("restart") {
		t = NewAppendOnlyTree(database, "")
	}
	idx := zzverif.U32("idx")
	zzverif.Assume(idx != uint32(k))
	tx, _ := db.NewTx(ctx, database)
	err := t.AddLeaf(tx, uint64(k+1), 0, types.Leaf{Index: idx, Hash: zzverif.Hash("leaf")})
	zzverif.Assert("wrong index refused with ErrInvalidIndex", err == ErrInvalidIndex)
	zzverif.Assert("commit", tx.Commit() == nil)
	last, err := t.GetLastRoot(nil)
	if k == 0 {
		zzverif.Assert("still empty", err == db.ErrNotFound)
	} else {
		zzverif.Assert("last root unchanged", err == nil && last.Index == uint32(k-1))
	}
}

// ZZVerif_C01_AppendBMC: K real appends from the empty store, a node restart (fresh tree object on the same store)
// possible before every append; every root equals the contract's, every historical proof verifies.
func ZZVerif_C01_AppendBMC() {
	database := zzOpenTreeDB()
	ctx := context.Background()
	t := NewAppendOnlyTree(database, "")
	ref := &zzRefContract{}
	k := zzverif.Param("K")
	leaves := make([]common.Hash, k)
	roots := make([]common.Hash, k)
	for i := 0; i < k; i++ {
		if zzverif.Bool("restart") {
			t = NewAppendOnlyTree(database, "")
		}
		leaves[i] = zzverif.Hash("leaf")
		zzverif.Assume(leaves[i] != common.Hash{}) // a leaf is a Keccak image; the zero word has no known preimage
		tx, err := db.NewTx(ctx, database)
		zzverif.Assert("begin", err == nil)
		err = t.AddLeaf(tx, uint64(i+1), 0, types.Leaf{Index: uint32(i), Hash: leaves[i]})
		zzverif.Note("AddLeaf err", err)
		zzverif.Assert("AddLeaf succeeds", err == nil)
		zzverif.Assert("commit", tx.Commit() == nil)
		ref.addLeaf(leaves[i])
		got, err := t.GetRootByIndex(ctx, uint32(i))
		zzverif.Assert("root readable", err == nil)
		zzverif.Assert("root == contract root", got.Hash == ref.getRoot())
		roots[i] = got.Hash
	}
	// C08: every (root_j, position i <= j) yields the leaf written at i and a verifying proof
	j := zzverif.Int("j", 0, k-1)
	i := zzverif.Int("i", 0, j)
	leaf, err := t.GetLeaf(database, uint32(i), roots[j])
	zzverif.Assert("GetLeaf ok", err == nil)
	zzverif.Assert("GetLeaf returns the value written", leaf == leaves[i])
	proof, err := t.GetProof(ctx, uint32(i), roots[j])
	zzverif.Assert("GetProof ok", err == nil)
	zzverif.Assert("historical proof verifies", CalculateRoot(leaves[i], proof, uint32(i)) == roots[j])
	zzverif.Reach("end")
}

// ZZVerif_C08_UpdatableBMC: K upserts at arbitrary positions 0..3 of the updatable tree (in new blocks or further down the same
// block), restart possible before each; with ABORT, the last one may be preceded by a rolled-back transaction that had written
// another value. For every recorded root j and every position i: GetLeaf(i, root_j) is the value last written at i as of j (zero if never written)
// and, when the position was written, the proof returned for (i, root_j) hashes with that leaf to root_j.
func ZZVerif_C08_UpdatableBMC() {
	database := zzOpenTreeDB()
	ctx := context.Background()
	t := NewUpdatableTree(database, "")
	k := zzverif.Param("K")
	var cur [4]common.Hash
	var written [4]bool
	hist := make([][4]common.Hash, k)
	histW := make([][4]bool, k)
	roots := make([]common.Hash, k)
	blk, bpos := uint64(0), uint64(0)
	for s := 0; s < k; s++ {
		if zzverif.Bool("restart") {
			t = NewUpdatableTree(database, "")
		}
		// several updates may share a block (ordered by their position in the block)
		if s > 0 && zzverif.Bool("sameBlock") {
			bpos += 1 + uint64(zzverif.U8("posGap"))
		} else {
			blk, bpos = blk+1, uint64(zzverif.U8("firstPos"))
		}
		pos := uint32(zzverif.Int("pos", 0, 3))
		v := common.Hash(zzverif.Hash("val"))
		zzverif.Assume(v != common.Hash{} && v != cur[pos])
		for q := 0; q < s; q++ {
			// values are fresh: the tree never returns to a configuration it had before (see known finding C11-1)
			zzverif.Assume(v != hist[q][0] && v != hist[q][1] && v != hist[q][2] && v != hist[q][3])
		}
		if ab := zzverif.Param("ABORT"); ab != 0 && s == k-1 && zzverif.Bool("abortedFirst") {
			// a transaction that wrote another value somewhere and was rolled back (the block failed further on and is retried)
			txa, err := db.NewTx(ctx, database)
			zzverif.Assert("begin", err == nil)
			av := common.Hash(zzverif.Hash("abortedVal"))
			zzverif.Assume(av != common.Hash{} && av != v)
			for q := 0; q < s; q++ { // fresh as well (see known finding C11-1)
				zzverif.Assume(av != hist[q][0] && av != hist[q][1] && av != hist[q][2] && av != hist[q][3])
			}
			apos := (pos + 1) % 4 // ABORT=1: a neighbouring position; ABORT=2: any position
			if ab == 2 {
				apos = uint32(zzverif.Int("abortedPos", 0, 3))
			}
			_, err = t.UpsertLeaf(txa, blk, bpos, types.Leaf{Index: apos, Hash: av})
			zzverif.Assert("UpsertLeaf succeeds (transaction rolled back afterwards)", err == nil)
			zzverif.Assert("rollback", txa.Rollback() == nil)
			zzverif.Reach("aborted")
		}
		tx, err := db.NewTx(ctx, database)
		zzverif.Assert("begin", err == nil)
		r, err := t.UpsertLeaf(tx, blk, bpos, types.Leaf{Index: pos, Hash: v})
		zzverif.Assert("UpsertLeaf succeeds", err == nil)
		zzverif.Assert("commit", tx.Commit() == nil)
		cur[pos] = v
		written[pos] = true
		hist[s], histW[s], roots[s] = cur, written, r
		last, err := t.GetLastRoot(nil)
		zzverif.Assert("last root is the returned root", err == nil && last.Hash == r)
	}
	j := zzverif.Int("j", 0, k-1)
	i := uint32(zzverif.Int("i", 0, 3))
	if histW[j][i] {
		leaf, err := t.GetLeaf(database, i, roots[j])
		zzverif.Assert("GetLeaf ok", err == nil)
		zzverif.Assert("GetLeaf returns the value last written as of that root", leaf == hist[j][i])
		proof, err := t.GetProof(ctx, i, roots[j])
		zzverif.Assert("GetProof ok", err == nil)
		zzverif.Assert("proof verifies against the requested root", CalculateRoot(hist[j][i], proof, i) == roots[j])
		zzverif.Reach("written")
	} else {
		proof, err := t.GetProof(ctx, i, roots[j])
		zzverif.Assert("GetProof ok (unwritten position)", err == nil)
		zzverif.Assert("proof of the empty leaf verifies", CalculateRoot(common.Hash{}, proof, i) == roots[j])
		zzverif.Reach("unwritten")
	}
}

// ZZVerif_C08_StorageError: two leaves are appended (and two positions of an updatable tree written); then the database handle is
// closed. Every proof / leaf query for a recorded root now reports an error - never a proof of zero hashes that does not lead
// to the root.
func ZZVerif_C08_StorageError() {
	database := zzOpenTreeDB()
	ctx := context.Background()
	at := NewAppendOnlyTree(database, "")
	var roots [2]common.Hash
	for i := 0; i < 2; i++ {
		v := common.Hash(zzverif.Hash("leaf"))
		zzverif.Assume(v != common.Hash{})
		tx, err := db.NewTx(ctx, database)
		zzverif.Assert("begin", err == nil)
		zzverif.Assert("AddLeaf", at.AddLeaf(tx, uint64(i+1), 0, types.Leaf{Index: uint32(i), Hash: v}) == nil)
		zzverif.Assert("commit", tx.Commit() == nil)
		r, err := at.GetLastRoot(nil)
		zzverif.Assert("root", err == nil)
		roots[i] = r.Hash
	}
	zzverif.Assume(roots[0] != roots[1])
	proof, err := at.GetProof(ctx, 0, roots[1])
	zzverif.Assert("proof before the fault", err == nil && CalculateRoot(func() common.Hash { l, _ := at.GetLeaf(database, 0, roots[1]); return l }(), proof, 0) == roots[1])
	zzverif.Assert("close", database.Close() == nil)
	_, err = at.GetProof(ctx, 0, roots[1])
	zzverif.Assert("storage unavailable: GetProof reports an error", err != nil)
	_, err = at.GetLeaf(database, 1, roots[1])
	zzverif.Assert("storage unavailable: GetLeaf reports an error", err != nil)
	_, err = at.GetRootByIndex(ctx, 0)
	zzverif.Assert("storage unavailable: GetRootByIndex reports an error", err != nil)
	zzverif.Reach("end")
}
