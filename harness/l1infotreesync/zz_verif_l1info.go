package l1infotreesync

import (
	"context"
	"errors"

	"github.com/agglayer/aggkit/db"
	"github.com/agglayer/aggkit/internal/zzverif"
	"github.com/agglayer/aggkit/sync"
	"github.com/agglayer/aggkit/tree"
	"github.com/ethereum/go-ethereum/common"
	"github.com/ethereum/go-ethereum/crypto"
)

// zzRefContract is a transliteration of DepositContractBase (_addLeaf / getRoot), which PolygonZkEVMGlobalExitRootV2 uses for
// the L1 info tree.
type zzRefContract struct {
	branch [32]common.Hash
	count  uint32
}

func (c *zzRefContract) addLeaf(leaf common.Hash) {
	node := leaf
	c.count++
	size := c.count
	for h := 0; h < 32; h++ {
		if (size>>h)&1 == 1 {
			c.branch[h] = node
			return
		}
		node = crypto.Keccak256Hash(c.branch[h][:], node[:])
	}
}

func (c *zzRefContract) getRoot() common.Hash {
	var node, zero common.Hash
	size := c.count
	for h := 0; h < 32; h++ {
		if (size>>h)&1 == 1 {
			node = crypto.Keccak256Hash(c.branch[h][:], node[:])
		} else {
			node = crypto.Keccak256Hash(node[:], zero[:])
		}
		zero = crypto.Keccak256Hash(zero[:], zero[:])
	}
	return node
}

// zzRefL1InfoLeaf is GlobalExitRootV2.getLeafValue(getGlobalExitRoot(mer, rer), parentHash, timestamp):
// keccak256(abi.encodePacked(keccak256(abi.encodePacked(mer, rer)), parentHash, uint64(timestamp)))
func zzRefL1InfoLeaf(mer, rer, parent common.Hash, ts uint64) (ger, leaf common.Hash) {
	ger = crypto.Keccak256Hash(mer[:], rer[:])
	t := []byte{byte(ts >> 56), byte(ts >> 48), byte(ts >> 40), byte(ts >> 32), byte(ts >> 24), byte(ts >> 16), byte(ts >> 8), byte(ts)}
	leaf = crypto.Keccak256Hash(ger[:], parent[:], t)
	return
}

// zzRefRollupExitRoot is PolygonRollupManager.getRollupExitRoot() for 4 rollups: the root of a height-32 tree whose leaves are
// the rollups' last local exit roots.
func zzRefRollupExitRoot(l [4]common.Hash) common.Hash {
	n0 := crypto.Keccak256Hash(l[0][:], l[1][:])
	n1 := crypto.Keccak256Hash(l[2][:], l[3][:])
	r := crypto.Keccak256Hash(n0[:], n1[:])
	var zero common.Hash
	zero = crypto.Keccak256Hash(zero[:], zero[:]) // height 1
	zero = crypto.Keccak256Hash(zero[:], zero[:]) // height 2
	for h := 2; h < 32; h++ {
		r = crypto.Keccak256Hash(r[:], zero[:])
		zero = crypto.Keccak256Hash(zero[:], zero[:])
	}
	return r
}

func zzNewProcessor(path string) *processor {
	p, err := newProcessor(path)
	if err != nil {
		panic(err)
	}
	return p
}

// ZZVerif_C11_Leaf: leaf hash and global exit root equal the contract's, for all values.
func ZZVerif_C11_Leaf() {
	l := &L1InfoTreeLeaf{
		PreviousBlockHash: zzverif.Hash("parent"),
		Timestamp:         zzverif.U64("ts"),
		MainnetExitRoot:   zzverif.Hash("mer"),
		RollupExitRoot:    zzverif.Hash("rer"),
	}
	ger, leaf := zzRefL1InfoLeaf(l.MainnetExitRoot, l.RollupExitRoot, l.PreviousBlockHash, l.Timestamp)
	zzverif.Observe("ger", l.GetGlobalExitRoot())
	zzverif.Observe("leaf", l.GetHash())
	zzverif.Assert("global exit root == keccak(mer, rer)", l.GetGlobalExitRoot() == ger)
	zzverif.Assert("leaf == contract getLeafValue", l.GetHash() == leaf)
}

type zzRefInfo struct {
	block, pos uint64
	mer, rer   common.Hash
	parent     common.Hash
	ts         uint64
	ger, leaf  common.Hash
	root       common.Hash
}

// ZZVerif_C11_Tree: K L1 blocks, each with 0..2 events out of {info update, root announcement (V2), verify batches}; restart
// possible before every block. The L1 info tree has one leaf per info update with consecutive indices in chain order; leaves
// and roots equal the contract's; every leaf is found by index and by global exit root; proofs verify; a correct root
// announcement is accepted, a wrong one halts the syncer and the block is not recorded. The rollup exit tree holds the last
// non-zero exit root per rollup and its root equals the rollup manager's.
func ZZVerif_C11_Tree() {
	// SHAPE encodes the sequence of events in base 4, least significant digit first:
	// 0 = info update, 1 = root announcement, 2 = verify batches, 3 = end of block
	shape := zzverif.Param("SHAPE")
	var tokens []int
	for shape > 0 {
		tokens = append(tokens, shape%4)
		shape /= 4
	}
	var blocksTok [][]int
	cur := []int{}
	for _, t := range tokens {
		if t == 3 {
			blocksTok = append(blocksTok, cur)
			cur = []int{}
		} else {
			cur = append(cur, t)
		}
	}
	k := len(blocksTok)
	ctx := context.Background()
	path := zzverif.TempDB("l1info")
	p := zzNewProcessor(path)
	ref := &zzRefContract{}
	var infos []zzRefInfo
	var rollups [4]common.Hash
	lastRER := common.Hash{}
	haveRER := false
	var seenExitRoots []common.Hash
	lastBlock := uint64(0)
	for i := 0; i < k; i++ {
		num := uint64(i + 1)
		if zzverif.Param("RESTART") == 1 {
			p = zzNewProcessor(path)
		}
		blk := sync.Block{Num: num, Hash: zzverif.Hash("bh")}
		pos := uint64(0)
		halts := false
		newInfos := infos
		newRef := *ref
		newRollups := rollups
		newLastRER, newHaveRER := lastRER, haveRER
		for _, kind := range blocksTok[i] {
			switch kind {
			case 0:
				in := zzRefInfo{block: num, pos: pos, mer: zzverif.Hash("mer"), rer: zzverif.Hash("rer"), parent: zzverif.Hash("parent"), ts: zzverif.U64("ts") >> 2}
				in.ger, in.leaf = zzRefL1InfoLeaf(in.mer, in.rer, in.parent, in.ts)
				for _, o := range newInfos {
					zzverif.Assume(o.ger != in.ger) // the contract never emits the same global exit root twice
				}
				newRef.addLeaf(in.leaf)
				in.root = newRef.getRoot()
				newInfos = append(newInfos[:len(newInfos):len(newInfos)], in)
				blk.Events = append(blk.Events, Event{UpdateL1InfoTree: &UpdateL1InfoTree{
					BlockPosition: pos, MainnetExitRoot: in.mer, RollupExitRoot: in.rer, ParentHash: in.parent, Timestamp: in.ts}})
			case 1:
				if len(newInfos) == 0 {
					zzverif.Assume(false) // the contract announces a root only after a leaf exists
				}
				ev := &UpdateL1InfoTreeV2{CurrentL1InfoRoot: newRef.getRoot(), LeafCount: newRef.count}
				if !zzverif.Bool("v2ok") {
					if zzverif.Bool("v2wrongCount") {
						ev.LeafCount = zzverif.U32("v2count")
						zzverif.Assume(ev.LeafCount != newRef.count)
					} else {
						ev.CurrentL1InfoRoot = zzverif.Hash("v2root")
						zzverif.Assume(ev.CurrentL1InfoRoot != newRef.getRoot())
					}
					halts = true
				}
				blk.Events = append(blk.Events, Event{UpdateL1InfoTreeV2: ev})
			case 2:
				id := uint32(zzverif.Int("rollupID", 1, 3))
				er := common.Hash(zzverif.Hash("exitRoot"))
				switch zzverif.Int("exitRootKind", 0, 2) {
				case 1:
					er = common.Hash{}
				case 2:
					er = newRollups[id-1]
				}
				if er != (common.Hash{}) && er != newRollups[id-1] {
					for _, old := range seenExitRoots {
						zzverif.Assume(er != old) // exit roots are fresh (see known finding C11-1)
					}
					seenExitRoots = append(seenExitRoots, er)
					newRollups[id-1] = er
					newLastRER, newHaveRER = zzRefRollupExitRoot(newRollups), true
				}
				blk.Events = append(blk.Events, Event{VerifyBatches: &VerifyBatches{
					BlockPosition: pos, RollupID: id, NumBatch: zzverif.U64("batch") >> 2, StateRoot: zzverif.Hash("stateRoot"),
					ExitRoot: er, Aggregator: zzverif.Addr("aggregator")}})
			}
			pos++
			if halts {
				break
			}
		}
		err := p.ProcessBlock(ctx, blk)
		if halts {
			zzverif.Reach("halted")
			zzverif.Assert("wrong announcement: ErrInconsistentState", errors.Is(err, sync.ErrInconsistentState))
			zzverif.Assert("wrong announcement: syncer halted", p.isHalted())
			lp, _ := p.GetLastProcessedBlock(ctx)
			zzverif.Assert("wrong announcement: block not recorded", lp == lastBlock)
			zzverif.Assert("halted: further blocks refused", errors.Is(p.ProcessBlock(ctx, sync.Block{Num: num + 1}), sync.ErrInconsistentState))
			s := &L1InfoTreeSync{processor: p}
			_, e2 := s.GetLastL1InfoTreeRoot(ctx)
			zzverif.Assert("halted: queries answer ErrInconsistentState", errors.Is(e2, sync.ErrInconsistentState))
			return
		}
		zzverif.Assert("block processed", err == nil)
		zzverif.Assert("not halted", !p.isHalted())
		infos, rollups, lastRER, haveRER = newInfos, newRollups, newLastRER, newHaveRER
		*ref = newRef
		lastBlock = num
	}
	s := &L1InfoTreeSync{processor: p}
	n := len(infos)
	if n == 0 {
		_, err := s.GetInfoByIndex(ctx, 0)
		zzverif.Assert("no leaf: index 0 not found", err != nil)
	} else {
		j := zzverif.Int("j", 0, n-1)
		in := infos[j]
		got, err := s.GetInfoByIndex(ctx, uint32(j))
		zzverif.Assert("leaf j found by index", err == nil)
		if err == nil {
			zzverif.Assert("leaf j: index, block and position", got.L1InfoTreeIndex == uint32(j) && got.BlockNumber == in.block && got.BlockPosition == in.pos)
			zzverif.Assert("leaf j: content", got.MainnetExitRoot == in.mer && got.RollupExitRoot == in.rer && got.PreviousBlockHash == in.parent && got.Timestamp == in.ts)
			zzverif.Assert("leaf j: global exit root and hash equal the contract's", got.GlobalExitRoot == in.ger && got.Hash == in.leaf)
		}
		byGER, err := s.GetInfoByGlobalExitRoot(in.ger)
		zzverif.Assert("leaf j found by global exit root", err == nil && byGER.L1InfoTreeIndex == uint32(j))
		root, err := s.GetL1InfoTreeRootByIndex(ctx, uint32(j))
		zzverif.Assert("root j == contract root", err == nil && root.Hash == in.root && root.Index == uint32(j))
		zzverif.Observe("root", root.Hash)
		proof, proot, err := s.GetL1InfoTreeMerkleProof(ctx, uint32(j))
		zzverif.Assert("proof of leaf j under root j verifies", err == nil && proot.Hash == in.root && tree.CalculateRoot(in.leaf, proof, uint32(j)) == in.root)
		last := infos[n-1]
		lr, err := s.GetLastL1InfoTreeRoot(ctx)
		zzverif.Assert("last root", err == nil && lr.Hash == last.root && lr.Index == uint32(n-1))
		pr2, err := s.GetL1InfoTreeMerkleProofFromIndexToRoot(ctx, uint32(j), lr.Hash)
		zzverif.Assert("proof of leaf j under the latest root verifies", err == nil && tree.CalculateRoot(in.leaf, pr2, uint32(j)) == lr.Hash)
		li, err := s.GetLatestInfoUntilBlock(ctx, lastBlock)
		zzverif.Assert("latest info until the last block is the last leaf", err == nil && li.L1InfoTreeIndex == uint32(n-1))
		zzverif.Reach("leaves")
	}
	if haveRER {
		rr, err := s.GetLastRollupExitRoot(ctx)
		zzverif.Assert("rollup exit root == rollup manager's", err == nil && rr.Hash == lastRER)
		id := uint32(zzverif.Int("qRollup", 1, 3))
		ler, err := s.GetLocalExitRoot(ctx, id, rr.Hash)
		if rollups[id-1] != (common.Hash{}) {
			zzverif.Assert("local exit root of rollup = last non-zero verified exit root", err == nil && ler == rollups[id-1])
			pr, err := s.GetRollupExitTreeMerkleProof(ctx, id, rr.Hash)
			zzverif.Assert("rollup exit proof verifies at index networkID-1", err == nil && tree.CalculateRoot(ler, pr, id-1) == rr.Hash)
			lv, err := s.GetLastVerifiedBatches(id)
			zzverif.Assert("last verified batches row names that exit root", err == nil && lv.ExitRoot == rollups[id-1])
		}
		zzverif.Reach("rollups")
	} else {
		_, err := s.GetLastRollupExitRoot(ctx)
		zzverif.Assert("no rollup exit root yet", errors.Is(err, db.ErrNotFound))
	}
}

// ZZVerif_C11_ExitRootRevert (known finding C11-1): the exit root of a rollup goes A, B, A. The third update brings the rollup
// exit tree back to a root that is already recorded; the node should record it (the tree must hold the last verified root).
func ZZVerif_C11_ExitRootRevert() {
	ctx := context.Background()
	p := zzNewProcessor(zzverif.TempDB("l1info"))
	a, b := common.Hash(zzverif.Hash("A")), common.Hash(zzverif.Hash("B"))
	zzverif.Assume(a != b && a != common.Hash{} && b != common.Hash{})
	for i, er := range []common.Hash{a, b, a} {
		blk := sync.Block{Num: uint64(i + 1), Hash: zzverif.Hash("bh"), Events: []interface{}{Event{VerifyBatches: &VerifyBatches{
			RollupID: 1, NumBatch: uint64(i + 1), ExitRoot: er, StateRoot: zzverif.Hash("sr"), Aggregator: zzverif.Addr("agg")}}}}
		err := p.ProcessBlock(ctx, blk)
		zzverif.Note("err", err)
		zzverif.Assert("verify batches block processed (exit root returns to an earlier value)", err == nil)
	}
	s := &L1InfoTreeSync{processor: p}
	rr, err := s.GetLastRollupExitRoot(ctx)
	zzverif.Assert("root served", err == nil)
	ler, err := s.GetLocalExitRoot(ctx, 1, rr.Hash)
	zzverif.Assert("rollup 1 holds the last verified exit root", err == nil && ler == a)
}
