package l1infotreesync

import (
	"context"
	"errors"

	"github.com/agglayer/aggkit/db"
	"github.com/agglayer/aggkit/internal/zzverif"
	"github.com/agglayer/aggkit/sync"
	"github.com/agglayer/aggkit/tree"
	"github.com/ethereum/go-ethereum/common"
	"github.com/ethereum/go-ethereum/crypto"
)

// zzRefContract is a transliteration of DepositContractBase (_addLeaf / getRoot), which PolygonZkEVMGlobalExitRootV2 uses for
// the L1 info tree.
type zzRefContract struct {
	branch [32]common.Hash
	count  uint32
}

func (c *zzRefContract) addLeaf(leaf common.Hash) {
	node := leaf
	c.count++
	size := c.count
	for h := 0; h < 32; h++ {
		if (size>>h)&1 == 1 {
			c.branch[h] = node
			return
		}
		node = crypto.Keccak256Hash(c.branch[h][:], node[:])
	}
}

func (c *zzRefContract) getRoot() common.Hash {
	var node, zero common.Hash
	size := c.count
	for h := 0; h < 32; h++ {
		if (size>>h)&1 == 1 {
			node = crypto.Keccak256Hash(c.branch[h][:], node[:])
		} else {
			node = crypto.Keccak256Hash(node[:], zero[:])
		}
		zero = crypto.Keccak256Hash(zero[:], zero[:])
	}
	return node
}

// zzRefL1InfoLeaf is GlobalExitRootV2.getLeafValue(getGlobalExitRoot(mer, rer), parentHash, timestamp):
// keccak256(abi.encodePacked(keccak256(abi.encodePacked(mer, rer)), parentHash, uint64(timestamp)))
func zzRefL1InfoLeaf(mer, rer, parent common.Hash, ts uint64) (ger, leaf common.Hash) {
	ger = crypto.Keccak256Hash(mer[:], rer[:])
	t := []byte{byte(ts >> 56), byte(ts >> 48), byte(ts >> 40), byte(ts >> 32), byte(ts >> 24), byte(ts >> 16), byte(ts >> 8), byte(ts)}
	leaf = crypto.Keccak256Hash(ger[:], parent[:], t)
	return
}

// zzRefRollupExitRoot is PolygonRollupManager.getRollupExitRoot() for 4 rollups: the root of a height-32 tree whose leaves are
// the rollups' last local exit roots.
func zzRefRollupExitRoot(l [4]common.Hash) common.Hash {
	n0 := crypto.Keccak256Hash(l[0][:], l[1][:])
	n1 := crypto.Keccak256Hash(l[2][:], l[3][:])
	r := crypto.Keccak256Hash(n0[:], n1[:])
	var zero common.Hash
	zero = crypto.Keccak256Hash(zero[:], zero[:]) // height 1
	zero = crypto.Keccak256Hash(zero[:], zero[:]) // height 2
	for h := 2; h < 32; h++ {
		r = crypto.Keccak256Hash(r[:], zero[:])
		zero = crypto.Keccak256Hash(zero[:], zero[:])
	}
	return r
}

func zzNewProcessor(path string) *processor {
	p, err := newProcessor(path)
	if err != nil {
		panic(err)
	}
	return p
}

// ZZVerif_C11_Leaf: leaf hash and global exit root equal the contract's, for all values.
func ZZVerif_C11_Leaf() {
	l := &L1InfoTreeLeaf{
		PreviousBlockHash: zzverif.Hash("parent"),
		Timestamp:         zzverif.U64("ts"),
		MainnetExitRoot:   zzverif.Hash("mer"),
		RollupExitRoot:    zzverif.Hash("rer"),
	}
	ger, leaf := zzRefL1InfoLeaf(l.MainnetExitRoot, l.RollupExitRoot, l.PreviousBlockHash, l.Timestamp)
	zzverif.Observe("ger", l.GetGlobalExitRoot())
	zzverif.Observe("leaf", l.GetHash())
	zzverif.Assert("global exit root == keccak(mer, rer)", l.GetGlobalExitRoot() == ger)
	zzverif.Assert("leaf == contract getLeafValue", l.GetHash() == leaf)
}

type zzRefInfo struct {
	block, pos uint64
	mer, rer   common.Hash
	parent     common.Hash
	ts         uint64
	ger, leaf  common.Hash
	root       common.Hash
}

// zzL1World: the real processor next to the reference state (contract L1 info tree, info leaves, rollup exit roots) it must mirror.
type zzL1World struct {
	ctx           context.Context
	path          string
	p             *processor
	ref           zzRefContract
	infos         []zzRefInfo
	rollups       [4]common.Hash
	lastRER       common.Hash
	haveRER       bool
	seenExitRoots []common.Hash
	lastBlock     uint64
}

// zzShapeBlocks decodes a SHAPE parameter: the sequence of events in base 4, least significant digit first:
// 0 = info update, 1 = root announcement, 2 = verify batches, 3 = end of block
func zzShapeBlocks(shape int) [][]int {
	var tokens []int
	for shape > 0 {
		tokens = append(tokens, shape%4)
		shape /= 4
	}
	var blocksTok [][]int
	cur := []int{}
	for _, t := range tokens {
		if t == 3 {
			blocksTok = append(blocksTok, cur)
			cur = []int{}
		} else {
			cur = append(cur, t)
		}
	}
	return blocksTok
}

func (w *zzL1World) snapshot() zzL1World {
	c := *w
	c.infos = append([]zzRefInfo{}, w.infos...)
	c.seenExitRoots = append([]common.Hash{}, w.seenExitRoots...)
	return c
}

// restore puts the reference state back to a snapshot (the processor and its database are kept)
func (w *zzL1World) restore(s zzL1World) {
	p := w.p
	*w = s
	w.p = p
}

// build makes block `num` out of event kinds with symbolic contents and returns it with the reference state after it (in nw) and
// whether one of its root announcements is wrong (the syncer must halt on it).
func (w *zzL1World) build(num uint64, kinds []int) (blk sync.Block, nw zzL1World, halts bool) {
	blk = sync.Block{Num: num, Hash: zzverif.Hash("bh")}
	nw = w.snapshot()
	pos := uint64(0)
	for _, kind := range kinds {
		switch kind {
		case 0:
			in := zzRefInfo{block: num, pos: pos, mer: zzverif.Hash("mer"), rer: zzverif.Hash("rer"), parent: zzverif.Hash("parent"), ts: zzverif.U64("ts") >> 2}
			in.ger, in.leaf = zzRefL1InfoLeaf(in.mer, in.rer, in.parent, in.ts)
			for _, o := range nw.infos {
				zzverif.Assume(o.ger != in.ger) // the contract never emits the same global exit root twice
			}
			nw.ref.addLeaf(in.leaf)
			in.root = nw.ref.getRoot()
			nw.infos = append(nw.infos, in)
			blk.Events = append(blk.Events, Event{UpdateL1InfoTree: &UpdateL1InfoTree{
				BlockPosition: pos, MainnetExitRoot: in.mer, RollupExitRoot: in.rer, ParentHash: in.parent, Timestamp: in.ts}})
		case 1:
			if len(nw.infos) == 0 {
				zzverif.Assume(false) // the contract announces a root only after a leaf exists
			}
			ev := &UpdateL1InfoTreeV2{CurrentL1InfoRoot: nw.ref.getRoot(), LeafCount: nw.ref.count}
			if !zzverif.Bool("v2ok") {
				if zzverif.Bool("v2wrongCount") {
					ev.LeafCount = zzverif.U32("v2count")
					zzverif.Assume(ev.LeafCount != nw.ref.count)
				} else {
					ev.CurrentL1InfoRoot = zzverif.Hash("v2root")
					zzverif.Assume(ev.CurrentL1InfoRoot != nw.ref.getRoot())
				}
				halts = true
			}
			blk.Events = append(blk.Events, Event{UpdateL1InfoTreeV2: ev})
		case 2:
			id := uint32(zzverif.Int("rollupID", 1, 3))
			er := common.Hash(zzverif.Hash("exitRoot"))
			switch zzverif.Int("exitRootKind", 0, 2) {
			case 1:
				er = common.Hash{}
			case 2:
				er = nw.rollups[id-1]
			}
			if er != (common.Hash{}) && er != nw.rollups[id-1] {
				for _, old := range nw.seenExitRoots {
					zzverif.Assume(er != old) // exit roots are fresh (see known finding C11-1)
				}
				nw.seenExitRoots = append(nw.seenExitRoots, er)
				nw.rollups[id-1] = er
				nw.lastRER, nw.haveRER = zzRefRollupExitRoot(nw.rollups), true
			}
			blk.Events = append(blk.Events, Event{VerifyBatches: &VerifyBatches{
				BlockPosition: pos, RollupID: id, NumBatch: zzverif.U64("batch") >> 2, StateRoot: zzverif.Hash("stateRoot"),
				ExitRoot: er, Aggregator: zzverif.Addr("aggregator")}})
		}
		pos++
		if halts {
			break
		}
	}
	nw.lastBlock = num
	return blk, nw, halts
}

// block builds and processes block `num`; returns false when the run ends there (the syncer halted, as it must).
func (w *zzL1World) block(num uint64, kinds []int) bool {
	ctx, p := w.ctx, w.p
	blk, nw, halts := w.build(num, kinds)
	err := p.ProcessBlock(ctx, blk)
	if halts {
		zzverif.Reach("halted")
		zzverif.Assert("wrong announcement: ErrInconsistentState", errors.Is(err, sync.ErrInconsistentState))
		zzverif.Assert("wrong announcement: syncer halted", p.isHalted())
		lp, _ := p.GetLastProcessedBlock(ctx)
		zzverif.Assert("wrong announcement: block not recorded", lp == w.lastBlock)
		zzverif.Assert("halted: further blocks refused", errors.Is(p.ProcessBlock(ctx, sync.Block{Num: num + 1}), sync.ErrInconsistentState))
		s := &L1InfoTreeSync{processor: p}
		_, e2 := s.GetLastL1InfoTreeRoot(ctx)
		zzverif.Assert("halted: queries answer ErrInconsistentState", errors.Is(e2, sync.ErrInconsistentState))
		return false
	}
	zzverif.Assert("block processed", err == nil)
	zzverif.Assert("not halted", !p.isHalted())
	w.restore(nw)
	return true
}

// observe compares everything the syncer serves with the reference state.
func (w *zzL1World) observe() {
	ctx, p, infos, rollups := w.ctx, w.p, w.infos, w.rollups
	s := &L1InfoTreeSync{processor: p}
	lp, errLP := p.GetLastProcessedBlock(ctx)
	zzverif.Assert("last processed block", errLP == nil && lp == w.lastBlock)
	n := len(infos)
	if n == 0 {
		_, err := s.GetInfoByIndex(ctx, 0)
		zzverif.Assert("no leaf: index 0 not found", err != nil)
	} else {
		j := zzverif.Int("j", 0, n-1)
		in := infos[j]
		got, err := s.GetInfoByIndex(ctx, uint32(j))
		zzverif.Assert("leaf j found by index", err == nil)
		if err == nil {
			zzverif.Assert("leaf j: index, block and position", got.L1InfoTreeIndex == uint32(j) && got.BlockNumber == in.block && got.BlockPosition == in.pos)
			zzverif.Assert("leaf j: content", got.MainnetExitRoot == in.mer && got.RollupExitRoot == in.rer && got.PreviousBlockHash == in.parent && got.Timestamp == in.ts)
			zzverif.Assert("leaf j: global exit root and hash equal the contract's", got.GlobalExitRoot == in.ger && got.Hash == in.leaf)
		}
		_, errN := s.GetInfoByIndex(ctx, uint32(n))
		zzverif.Assert("no leaf beyond the last one", errN != nil)
		byGER, err := s.GetInfoByGlobalExitRoot(in.ger)
		zzverif.Assert("leaf j found by global exit root", err == nil && byGER.L1InfoTreeIndex == uint32(j))
		root, err := s.GetL1InfoTreeRootByIndex(ctx, uint32(j))
		zzverif.Assert("root j == contract root", err == nil && root.Hash == in.root && root.Index == uint32(j))
		zzverif.Observe("root", root.Hash)
		proof, proot, err := s.GetL1InfoTreeMerkleProof(ctx, uint32(j))
		zzverif.Assert("proof of leaf j under root j verifies", err == nil && proot.Hash == in.root && tree.CalculateRoot(in.leaf, proof, uint32(j)) == in.root)
		last := infos[n-1]
		lr, err := s.GetLastL1InfoTreeRoot(ctx)
		zzverif.Assert("last root", err == nil && lr.Hash == last.root && lr.Index == uint32(n-1))
		pr2, err := s.GetL1InfoTreeMerkleProofFromIndexToRoot(ctx, uint32(j), lr.Hash)
		zzverif.Assert("proof of leaf j under the latest root verifies", err == nil && tree.CalculateRoot(in.leaf, pr2, uint32(j)) == lr.Hash)
		li, err := s.GetLatestInfoUntilBlock(ctx, w.lastBlock)
		zzverif.Assert("latest info until the last block is the last leaf", err == nil && li.L1InfoTreeIndex == uint32(n-1))
		zzverif.Reach("leaves")
	}
	if w.haveRER {
		rr, err := s.GetLastRollupExitRoot(ctx)
		zzverif.Assert("rollup exit root == rollup manager's", err == nil && rr.Hash == w.lastRER)
		id := uint32(zzverif.Int("qRollup", 1, 3))
		ler, err := s.GetLocalExitRoot(ctx, id, rr.Hash)
		if rollups[id-1] != (common.Hash{}) {
			zzverif.Assert("local exit root of rollup = last non-zero verified exit root", err == nil && ler == rollups[id-1])
			pr, err := s.GetRollupExitTreeMerkleProof(ctx, id, rr.Hash)
			zzverif.Assert("rollup exit proof verifies at index networkID-1", err == nil && tree.CalculateRoot(ler, pr, id-1) == rr.Hash)
			lv, err := s.GetLastVerifiedBatches(id)
			zzverif.Assert("last verified batches row names that exit root", err == nil && lv.ExitRoot == rollups[id-1])
		}
		zzverif.Reach("rollups")
	} else {
		_, err := s.GetLastRollupExitRoot(ctx)
		zzverif.Assert("no rollup exit root yet", errors.Is(err, db.ErrNotFound))
	}
}

func zzNewL1World() *zzL1World {
	path := zzverif.TempDB("l1info")
	return &zzL1World{ctx: context.Background(), path: path, p: zzNewProcessor(path)}
}

// ZZVerif_C11_Tree: K L1 blocks, each with 0..2 events out of {info update, root announcement (V2), verify batches}; restart
// possible before every block. The L1 info tree has one leaf per info update with consecutive indices in chain order; leaves
// and roots equal the contract's; every leaf is found by index and by global exit root; proofs verify; a correct root
// announcement is accepted, a wrong one halts the syncer and the block is not recorded. The rollup exit tree holds the last
// non-zero exit root per rollup and its root equals the rollup manager's.
func ZZVerif_C11_Tree() {
	blocksTok := zzShapeBlocks(zzverif.Param("SHAPE"))
	w := zzNewL1World()
	for i := range blocksTok {
		if zzverif.Param("RESTART") == 1 {
			w.p = zzNewProcessor(w.path)
		}
		if !w.block(uint64(i+1), blocksTok[i]) {
			return
		}
	}
	w.observe()
}

// ZZVerif_C04_L1InfoReorg: blocks per SHAPE are processed, then the chain is reorganised from block B on (optionally after a
// restart), the blocks of FSHAPE follow from block B, and everything the syncer serves equals the reference state of a chain that
// never contained the orphaned blocks. Exit roots verified in orphaned blocks may be verified again on the new fork.
func ZZVerif_C04_L1InfoReorg() {
	blocksTok := zzShapeBlocks(zzverif.Param("SHAPE"))
	fork := zzShapeBlocks(zzverif.Param("FSHAPE"))
	b := zzverif.Param("B")
	w := zzNewL1World()
	snaps := []zzL1World{w.snapshot()}
	for i := range blocksTok {
		if !w.block(uint64(i+1), blocksTok[i]) {
			return
		}
		snaps = append(snaps, w.snapshot())
	}
	if zzverif.Param("RESTART") == 1 {
		w.p = zzNewProcessor(w.path)
	}
	zzverif.Assert("reorg ok", w.p.Reorg(w.ctx, uint64(b)) == nil)
	if b-1 < len(snaps) {
		if b >= 1 {
			w.restore(snaps[b-1])
		} else {
			w.restore(snaps[0])
		}
	}
	if zzverif.Param("RESTART") == 2 {
		w.p = zzNewProcessor(w.path)
	}
	for i := range fork {
		if !w.block(uint64(b+i), fork[i]) {
			return
		}
	}
	w.observe()
	zzverif.Reach("end")
}

var zzL1Tables = []string{"block", "l1info_leaf", "verify_batches", "l1_info_root", "l1_info_rht", "rollup_exit_root", "rollup_exit_rht"}

// ZZVerif_C07_L1InfoFault: blocks per SHAPE; while block FB is processed the FN-th insert into table T fails. The block is not
// recorded, nothing of it is visible, and - after an optional restart - processing the same block again succeeds and the
// syncer serves exactly the reference state.
func ZZVerif_C07_L1InfoFault() {
	blocksTok := zzShapeBlocks(zzverif.Param("SHAPE"))
	fb, t, fn := zzverif.Param("FB"), zzverif.Param("T"), zzverif.Param("FN")
	w := zzNewL1World()
	for i := range blocksTok {
		num := uint64(i + 1)
		if i+1 != fb {
			if !w.block(num, blocksTok[i]) {
				return
			}
			continue
		}
		blk, nw, halts := w.build(num, blocksTok[i])
		zzverif.Assume(!halts)
		zzverif.FailInsert(w.p.db, zzL1Tables[t], fn)
		err := w.p.ProcessBlock(w.ctx, blk)
		zzverif.ClearFaults(w.p.db, zzL1Tables[t])
		if err == nil {
			// the block has fewer inserts into that table than FN: no fault happened
			zzverif.Reach("nofault")
			w.restore(nw)
			continue
		}
		zzverif.Reach("fault")
		zzverif.Assert("fault: not halted", !w.p.isHalted())
		if zzverif.Bool("restartAfterFault") {
			w.p = zzNewProcessor(w.path)
		}
		w.observe() // nothing of the failed block is visible
		zzverif.Assert("retry succeeds", w.p.ProcessBlock(w.ctx, blk) == nil)
		w.restore(nw)
	}
	w.observe()
	zzverif.Reach("end")
}

// ZZVerif_C11_ExitRootRevert (known finding C11-1): the exit root of a rollup goes A, B, A. The third update brings the rollup
// exit tree back to a root that is already recorded; the node should record it (the tree must hold the last verified root).
func ZZVerif_C11_ExitRootRevert() {
	ctx := context.Background()
	p := zzNewProcessor(zzverif.TempDB("l1info"))
	a, b := common.Hash(zzverif.Hash("A")), common.Hash(zzverif.Hash("B"))
	zzverif.Assume(a != b && a != common.Hash{} && b != common.Hash{})
	for i, er := range []common.Hash{a, b, a} {
		blk := sync.Block{Num: uint64(i + 1), Hash: zzverif.Hash("bh"), Events: []interface{}{Event{VerifyBatches: &VerifyBatches{
			RollupID: 1, NumBatch: uint64(i + 1), ExitRoot: er, StateRoot: zzverif.Hash("sr"), Aggregator: zzverif.Addr("agg")}}}}
		err := p.ProcessBlock(ctx, blk)
		zzverif.Note("err", err)
		zzverif.Assert("verify batches block processed (exit root returns to an earlier value)", err == nil)
	}
	s := &L1InfoTreeSync{processor: p}
	rr, err := s.GetLastRollupExitRoot(ctx)
	zzverif.Assert("root served", err == nil)
	ler, err := s.GetLocalExitRoot(ctx, 1, rr.Hash)
	zzverif.Assert("rollup 1 holds the last verified exit root", err == nil && ler == a)
}
