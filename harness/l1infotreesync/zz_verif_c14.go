package l1infotreesync

import (
	"context"
	"errors"

	"github.com/agglayer/aggkit/internal/zzverif"
	"github.com/agglayer/aggkit/sync"
	"github.com/ethereum/go-ethereum/common"
)

// ZZVerif_C14_L1Info: an announced root / leaf count that does not match the tree halts the L1 info syncer: the block is not
// recorded, every data query answers ErrInconsistentState; a reorg clears the condition exactly when it removes a block.
func ZZVerif_C14_L1Info() {
	ctx := context.Background()
	p := zzNewProcessor(zzverif.TempDB("l1info"))
	up := &UpdateL1InfoTree{MainnetExitRoot: zzverif.Hash("mer"), RollupExitRoot: zzverif.Hash("rer"), ParentHash: zzverif.Hash("parent"), Timestamp: zzverif.U64("ts") >> 2}
	zzverif.Assert("block 1 processed", p.ProcessBlock(ctx, sync.Block{Num: 1, Hash: zzverif.Hash("bh"), Events: []interface{}{Event{UpdateL1InfoTree: up}}}) == nil)
	root, err := p.l1InfoTree.GetLastRoot(nil)
	zzverif.Assert("root", err == nil)
	ev := &UpdateL1InfoTreeV2{CurrentL1InfoRoot: zzverif.Hash("annRoot"), LeafCount: zzverif.U32("annCount")}
	zzverif.Assume(ev.CurrentL1InfoRoot != root.Hash || ev.LeafCount != 1)
	err = p.ProcessBlock(ctx, sync.Block{Num: 2, Hash: zzverif.Hash("bh"), Events: []interface{}{Event{UpdateL1InfoTreeV2: ev}}})
	zzverif.Assert("mismatching announcement: ErrInconsistentState", errors.Is(err, sync.ErrInconsistentState))
	zzverif.Assert("mismatching announcement: halted", p.isHalted())
	s := &L1InfoTreeSync{processor: p}
	h := common.Hash(zzverif.Hash("anyHash"))
	u := zzverif.U32("anyU32")
	x := zzverif.U64("anyBlock")
	isInc := func(e error) bool { return errors.Is(e, sync.ErrInconsistentState) }
	_, _, e1 := s.GetL1InfoTreeMerkleProof(ctx, u)
	_, e2 := s.GetRollupExitTreeMerkleProof(ctx, u, h)
	_, e3 := s.GetLatestInfoUntilBlock(ctx, x)
	_, e4 := s.GetInfoByIndex(ctx, u)
	_, e5 := s.GetL1InfoTreeRootByIndex(ctx, u)
	_, e6 := s.GetLastRollupExitRoot(ctx)
	_, e7 := s.GetLastL1InfoTreeRoot(ctx)
	_, e8 := s.GetLastProcessedBlock(ctx)
	_, e9 := s.GetLocalExitRoot(ctx, u, h)
	_, e10 := s.GetLastVerifiedBatches(u)
	_, e11 := s.GetFirstVerifiedBatches(u)
	_, e12 := s.GetFirstVerifiedBatchesAfterBlock(u, x)
	_, e13 := s.GetFirstL1InfoWithRollupExitRoot(h)
	_, e14 := s.GetLastInfo()
	_, e15 := s.GetFirstInfo()
	_, e16 := s.GetFirstInfoAfterBlock(x)
	_, e17 := s.GetInfoByGlobalExitRoot(h)
	_, e18 := s.GetL1InfoTreeMerkleProofFromIndexToRoot(ctx, u, h)
	_, e19 := s.GetInitL1InfoRootMap(ctx)
	_, _, e20 := s.GetProcessedBlockUntil(ctx, x)
	zzverif.Assert("halted: GetL1InfoTreeMerkleProof", isInc(e1))
	zzverif.Assert("halted: GetRollupExitTreeMerkleProof", isInc(e2))
	zzverif.Assert("halted: GetLatestInfoUntilBlock", isInc(e3))
	zzverif.Assert("halted: GetInfoByIndex", isInc(e4))
	zzverif.Assert("halted: GetL1InfoTreeRootByIndex", isInc(e5))
	zzverif.Assert("halted: GetLastRollupExitRoot", isInc(e6))
	zzverif.Assert("halted: GetLastL1InfoTreeRoot", isInc(e7))
	zzverif.Assert("halted: GetLastProcessedBlock", isInc(e8))
	zzverif.Assert("halted: GetLocalExitRoot", isInc(e9))
	zzverif.Assert("halted: GetLastVerifiedBatches", isInc(e10))
	zzverif.Assert("halted: GetFirstVerifiedBatches", isInc(e11))
	zzverif.Assert("halted: GetFirstVerifiedBatchesAfterBlock", isInc(e12))
	zzverif.Assert("halted: GetFirstL1InfoWithRollupExitRoot", isInc(e13))
	zzverif.Assert("halted: GetLastInfo", isInc(e14))
	zzverif.Assert("halted: GetFirstInfo", isInc(e15))
	zzverif.Assert("halted: GetFirstInfoAfterBlock", isInc(e16))
	zzverif.Assert("halted: GetInfoByGlobalExitRoot", isInc(e17))
	zzverif.Assert("halted: GetL1InfoTreeMerkleProofFromIndexToRoot", isInc(e18))
	zzverif.Assert("halted: GetInitL1InfoRootMap", isInc(e19))
	zzverif.Assert("halted: GetProcessedBlockUntil", isInc(e20))
	rb := zzverif.U64("reorgBlock")
	zzverif.Assume(rb < 1<<62)
	zzverif.Assert("reorg ok", p.Reorg(ctx, rb) == nil)
	if rb <= 1 {
		zzverif.Reach("unhalted")
		zzverif.Assert("reorg removed a block: condition cleared", !p.isHalted())
	} else {
		zzverif.Reach("stillhalted")
		zzverif.Assert("reorg removed nothing: still halted", p.isHalted())
		_, e := s.GetLastInfo()
		zzverif.Assert("still halted: queries refuse", isInc(e))
	}
}

// ZZVerif_C14_L1InfoFailedReorg: the L1 info syncer is halted (mismatching announcement in block 3); a reorg from block RB is
// attempted while deletes on table T fail. The reorg reports the error, removes nothing and the syncer stays halted; once the
// fault is gone the same reorg succeeds and clears the condition.
func ZZVerif_C14_L1InfoFailedReorg() {
	ctx := context.Background()
	rb := uint64(zzverif.Param("RB"))
	table := []string{"block", "l1_info_root", "rollup_exit_root"}[zzverif.Param("T")]
	p := zzNewProcessor(zzverif.TempDB("l1info"))
	var prevExit common.Hash
	for n := uint64(1); n <= 2; n++ {
		up := &UpdateL1InfoTree{MainnetExitRoot: zzverif.Hash("mer"), RollupExitRoot: zzverif.Hash("rer"), ParentHash: zzverif.Hash("parent"), Timestamp: zzverif.U64("ts") >> 2}
		vb := &VerifyBatches{BlockPosition: 1, RollupID: 1, NumBatch: n, StateRoot: zzverif.Hash("stateRoot"), ExitRoot: zzverif.Hash("exitRoot"), Aggregator: zzverif.Addr("aggregator")}
		zzverif.Assume(vb.ExitRoot != (common.Hash{}) && vb.ExitRoot != prevExit) // a new exit root: the rollup exit tree gets a root in this block
		prevExit = vb.ExitRoot
		zzverif.Assume(p.ProcessBlock(ctx, sync.Block{Num: n, Hash: zzverif.Hash("bh"), Events: []interface{}{Event{UpdateL1InfoTree: up}, Event{VerifyBatches: vb}}}) == nil)
	}
	root, err := p.l1InfoTree.GetLastRoot(nil)
	zzverif.Assert("root", err == nil)
	ev := &UpdateL1InfoTreeV2{CurrentL1InfoRoot: zzverif.Hash("annRoot"), LeafCount: 2}
	zzverif.Assume(ev.CurrentL1InfoRoot != root.Hash)
	err = p.ProcessBlock(ctx, sync.Block{Num: 3, Hash: zzverif.Hash("bh"), Events: []interface{}{Event{UpdateL1InfoTreeV2: ev}}})
	zzverif.Assert("halted", errors.Is(err, sync.ErrInconsistentState) && p.isHalted())
	zzverif.FailDelete(p.db, table)
	err = p.Reorg(ctx, rb)
	zzverif.ClearFaults(p.db, table)
	zzverif.Assert("a reorg whose deletes fail reports the error", err != nil)
	zzverif.Assert("failed reorg: still halted", p.isHalted())
	lp, err := p.GetLastProcessedBlock(ctx)
	zzverif.Assert("failed reorg: no block removed", err == nil && lp == 2)
	s := &L1InfoTreeSync{processor: p}
	_, e := s.GetLastInfo()
	zzverif.Assert("failed reorg: queries still refuse", errors.Is(e, sync.ErrInconsistentState))
	zzverif.Assert("halted: blocks still refused", errors.Is(p.ProcessBlock(ctx, sync.Block{Num: 3}), sync.ErrInconsistentState))
	zzverif.Assert("reorg without the fault succeeds", p.Reorg(ctx, rb) == nil)
	zzverif.Assert("and clears the condition", !p.isHalted())
	lp, err = p.GetLastProcessedBlock(ctx)
	zzverif.Assert("and removes the blocks", err == nil && lp == rb-1)
	zzverif.Reach("end")
}
