package l1infotreesync

import (
	"math/big"

	"github.com/agglayer/aggkit/internal/zzverif"
	"github.com/agglayer/aggkit/sync"
	"github.com/ethereum/go-ethereum/common"
	"github.com/ethereum/go-ethereum/core/types"
)

func zzWordU64(v uint64) []byte { return common.LeftPadBytes(new(big.Int).SetUint64(v).Bytes(), 32) }

// zzWord is a 32-byte ABI word holding v
func zzWord(v uint64) (w common.Hash) {
	for i := 0; i < 8; i++ {
		w[31-i] = byte(v >> (8 * i))
	}
	return
}

// ZZVerif_C11_Appender: logs of one L1 block, as the contracts emit them (kinds per KINDS, all argument values arbitrary, log
// indexes arbitrary increasing, transaction indexes arbitrary - several logs may come from one transaction), go through the
// real log appender. Every log becomes one event, in log order, with the log's arguments in the right fields, the block's
// parent hash and timestamp on info updates, and block positions that increase with the log index (two updates of one block never
// share a position).
func ZZVerif_C11_Appender() {
	kinds := zzverif.Param("KINDS") // base-5 digits, first log lowest: 0 UpdateL1InfoTree, 1 UpdateL1InfoTreeV2, 2 VerifyBatches, 3 VerifyBatchesTrustedAggregator, 4 InitL1InfoRootMap
	n := zzverif.Param("N")
	app, err := buildAppender(nil, common.Address{1}, common.Address{2}, FlagAllowWrongContractsAddrs)
	zzverif.Assert("appender built", err == nil && app != nil)
	if err != nil {
		return
	}
	b := &sync.EVMBlock{EVMBlockHeader: sync.EVMBlockHeader{Num: zzverif.U64("blockNum"), Hash: zzverif.Hash("blockHash"), ParentHash: zzverif.Hash("parentHash"), Timestamp: zzverif.U64("timestamp")}}
	prevIdx := uint(0)
	var positions []uint64
	for i := 0; i < n; i++ {
		kind := kinds % 5
		kinds /= 5
		idx := uint(zzverif.U32("logIndex"))
		zzverif.Assume(i == 0 || idx > prevIdx)
		prevIdx = idx
		l := types.Log{BlockNumber: b.Num, BlockHash: b.Hash, Index: idx, TxIndex: uint(zzverif.U16("txIndex")), TxHash: zzverif.Hash("txHash")}
		h1, h2, h3 := common.Hash(zzverif.Hash("arg1")), common.Hash(zzverif.Hash("arg2")), common.Hash(zzverif.Hash("arg3"))
		u32, u64 := zzverif.U32("argU32"), zzverif.U64("argU64")
		addr := common.Address(zzverif.Addr("argAddr"))
		var sig common.Hash
		switch kind {
		case 0:
			sig = updateL1InfoTreeSignatureV1
			l.Topics = []common.Hash{sig, h1, h2}
		case 1:
			sig = updateL1InfoTreeSignatureV2
			l.Topics = []common.Hash{sig, zzWord(uint64(u32))}
			l.Data = append(append(append([]byte{}, h1[:]...), h2[:]...), zzWord(u64).Bytes()...)
		case 2, 3:
			sig = verifyBatchesSignature
			if kind == 3 {
				sig = verifyBatchesTrustedAggregatorSignature
			}
			l.Topics = []common.Hash{sig, zzWord(uint64(u32)), common.BytesToHash(addr[:])}
			l.Data = append(append(append([]byte{}, zzWord(u64).Bytes()...), h1[:]...), h2[:]...)
		default:
			sig = initL1InfoRootMapSignature
			l.Topics = []common.Hash{sig}
			l.Data = append(append([]byte{}, zzWord(uint64(u32)).Bytes()...), h3[:]...)
		}
		fn, ok := app[sig]
		zzverif.Assert("the appender handles the event", ok)
		if !ok {
			return
		}
		before := len(b.Events)
		zzverif.Assert("log accepted", fn(b, l) == nil)
		zzverif.Assert("one event per log, appended", len(b.Events) == before+1)
		if len(b.Events) != before+1 {
			return
		}
		ev, isEv := b.Events[before].(Event)
		zzverif.Assert("event type", isEv)
		switch kind {
		case 0:
			u := ev.UpdateL1InfoTree
			zzverif.Assert("info update: exit roots, parent hash and timestamp of the block", u != nil && u.MainnetExitRoot == h1 && u.RollupExitRoot == h2 &&
				u.ParentHash == b.ParentHash && u.Timestamp == b.Timestamp)
			if u != nil {
				positions = append(positions, u.BlockPosition)
			}
		case 1:
			u := ev.UpdateL1InfoTreeV2
			zzverif.Assert("root announcement: root, leaf count, block hash, minimum timestamp", u != nil && u.CurrentL1InfoRoot == h1 && u.LeafCount == u32 &&
				u.Blockhash == h2 && u.MinTimestamp == u64)
		case 2, 3:
			v := ev.VerifyBatches
			zzverif.Assert("verified batches: rollup, batch, state root, exit root, aggregator", v != nil && v.RollupID == u32 && v.NumBatch == u64 && v.StateRoot == h1 &&
				v.ExitRoot == h2 && v.Aggregator == addr)
			if v != nil {
				positions = append(positions, v.BlockPosition)
			}
		default:
			in := ev.InitL1InfoRootMap
			zzverif.Assert("initial root: leaf count and root", in != nil && in.LeafCount == u32 && in.CurrentL1InfoRoot == h3)
		}
	}
	for i := 1; i < len(positions); i++ {
		zzverif.Assert("block positions increase with the log index (no two events of a block share a position)", positions[i] > positions[i-1])
	}
	zzverif.Reach("end")
}
