package bridgesync

import (
	"context"
	"math/big"

	"github.com/agglayer/aggkit/internal/zzverif"
	"github.com/agglayer/aggkit/sync"
	"github.com/ethereum/go-ethereum/common"
)

// zzClaim builds a claim event with arbitrary field values.
func zzClaim(blockNum, blockPos uint64) *Claim {
	gi := common.Hash(zzverif.Hash("globalIndex"))
	amt := common.Hash(zzverif.Hash("claimAmount"))
	c := &Claim{
		BlockNum:           blockNum,
		BlockPos:           blockPos,
		FromAddress:        zzverif.Addr("cfrom"),
		TxHash:             zzverif.Hash("ctx"),
		GlobalIndex:        new(big.Int).SetBytes(gi[:]),
		OriginNetwork:      zzverif.U32("cOrigNet"),
		OriginAddress:      zzverif.Addr("cOrigAddr"),
		DestinationAddress: zzverif.Addr("cDestAddr"),
		Amount:             new(big.Int).SetBytes(amt[:]),
		MainnetExitRoot:    zzverif.Hash("cMER"),
		RollupExitRoot:     zzverif.Hash("cRER"),
		GlobalExitRoot:     zzverif.Hash("cGER"),
		DestinationNetwork: zzverif.U32("cDestNet"),
		Metadata:           zzverif.Bytes("cMeta", 3),
		IsMessage:          zzverif.Bool("cMsg"),
		BlockTimestamp:     zzverif.U64("cts") >> 2,
	}
	c.ProofLocalExitRoot[0] = zzverif.Hash("cpl0")
	c.ProofLocalExitRoot[31] = zzverif.Hash("cpl31")
	c.ProofRollupExitRoot[5] = zzverif.Hash("cpr5")
	return c
}

// zzBlocks builds n blocks numbered first.. ; the events of block i are given by digit i of layout in base 6:
// digit = number of bridges (0..2) + 3 * (has a claim). All field values are arbitrary; deposit counts continue from *dc.
func zzBlocks(first uint64, n int, dc *uint32, tag string, layout int) []sync.Block {
	out := make([]sync.Block, 0, n)
	for i := 0; i < n; i++ {
		num := first + uint64(i)
		d := layout % 6
		layout /= 6
		blk := sync.Block{Num: num, Hash: zzverif.Hash("bh" + tag)}
		pos := uint64(0)
		for j := 0; j < d%3; j++ {
			b, _ := zzBridge(num, pos, *dc, 2)
			zzverif.Assume(b.Hash() != common.Hash{})
			blk.Events = append(blk.Events, Event{Bridge: b})
			*dc++
			pos++
		}
		if d >= 3 {
			blk.Events = append(blk.Events, Event{Claim: zzClaim(num, pos)})
		}
		out = append(out, blk)
	}
	return out
}

func zzSameBridge(a, b Bridge) bool {
	if (a.Amount == nil) != (b.Amount == nil) {
		return false
	}
	if a.Amount != nil && a.Amount.Cmp(b.Amount) != 0 {
		return false
	}
	if len(a.Metadata) != len(b.Metadata) || len(a.Calldata) != len(b.Calldata) {
		return false
	}
	for i := range a.Metadata {
		if a.Metadata[i] != b.Metadata[i] {
			return false
		}
	}
	return a.BlockNum == b.BlockNum && a.BlockPos == b.BlockPos && a.FromAddress == b.FromAddress && a.TxHash == b.TxHash &&
		a.BlockTimestamp == b.BlockTimestamp && a.LeafType == b.LeafType && a.OriginNetwork == b.OriginNetwork &&
		a.OriginAddress == b.OriginAddress && a.DestinationNetwork == b.DestinationNetwork &&
		a.DestinationAddress == b.DestinationAddress && a.DepositCount == b.DepositCount && a.IsNativeToken == b.IsNativeToken
}

func zzSameClaim(a, b Claim) bool {
	if a.GlobalIndex.Cmp(b.GlobalIndex) != 0 || a.Amount.Cmp(b.Amount) != 0 || len(a.Metadata) != len(b.Metadata) {
		return false
	}
	for i := range a.Metadata {
		if a.Metadata[i] != b.Metadata[i] {
			return false
		}
	}
	return a.BlockNum == b.BlockNum && a.BlockPos == b.BlockPos && a.FromAddress == b.FromAddress && a.TxHash == b.TxHash &&
		a.OriginNetwork == b.OriginNetwork && a.OriginAddress == b.OriginAddress && a.DestinationAddress == b.DestinationAddress &&
		a.ProofLocalExitRoot == b.ProofLocalExitRoot && a.ProofRollupExitRoot == b.ProofRollupExitRoot &&
		a.MainnetExitRoot == b.MainnetExitRoot && a.RollupExitRoot == b.RollupExitRoot && a.GlobalExitRoot == b.GlobalExitRoot &&
		a.DestinationNetwork == b.DestinationNetwork && a.IsMessage == b.IsMessage && a.BlockTimestamp == b.BlockTimestamp
}

// zzSameAnswers: every query the bridge store serves answers alike on pa and pb (maxDC = deposits ever created in the scenario,
// lastBlock = highest block number ever used).  Then one more block with a bridge is processed on both and its root compared
// (this observes the in-memory frontier).
func zzSameAnswers(ctx context.Context, pa, pb *processor, maxDC uint32, lastBlock uint64) {
	sa, sb := &BridgeSync{processor: pa}, &BridgeSync{processor: pb}
	la, ea := sa.GetLastProcessedBlock(ctx)
	lb, eb := sb.GetLastProcessedBlock(ctx)
	zzverif.Assert("same last processed block", ea == nil && eb == nil && la == lb)
	to := zzverif.U64("qTo")
	from := zzverif.U64("qFrom")
	zzverif.Assume(from <= to && to <= lastBlock+1)
	ba, ea := sa.GetBridges(ctx, from, to)
	bb, eb := sb.GetBridges(ctx, from, to)
	zzverif.Assert("GetBridges: same error-ness", (ea == nil) == (eb == nil))
	zzverif.Assert("GetBridges: same count", len(ba) == len(bb))
	if len(ba) == len(bb) {
		for i := range ba {
			zzverif.Assert("GetBridges: same rows", zzSameBridge(ba[i], bb[i]))
		}
	}
	ca, ea := sa.GetClaims(ctx, from, to)
	cb, eb := sb.GetClaims(ctx, from, to)
	zzverif.Assert("GetClaims: same error-ness", (ea == nil) == (eb == nil))
	zzverif.Assert("GetClaims: same count", len(ca) == len(cb))
	if len(ca) == len(cb) {
		for i := range ca {
			zzverif.Assert("GetClaims: same rows", zzSameClaim(ca[i], cb[i]))
		}
	}
	for j := uint32(0); j <= maxDC; j++ {
		ra, ea := sa.GetExitRootByIndex(ctx, j)
		rb, eb := sb.GetExitRootByIndex(ctx, j)
		zzverif.Assert("GetExitRootByIndex: same error-ness", (ea == nil) == (eb == nil))
		if ea == nil && eb == nil {
			zzverif.Assert("GetExitRootByIndex: same root", ra == rb)
			xa, ea2 := sa.GetRootByLER(ctx, ra.Hash)
			xb, eb2 := sb.GetRootByLER(ctx, ra.Hash)
			zzverif.Assert("GetRootByLER: same", ea2 == nil && eb2 == nil && *xa == *xb)
			pa2, ea3 := sa.GetProof(ctx, j, ra.Hash)
			pb2, eb3 := sb.GetProof(ctx, j, ra.Hash)
			zzverif.Assert("GetProof: same", ea3 == nil && eb3 == nil && pa2 == pb2)
		}
	}
	// continuation: the next block (with one more deposit) gives the same root on both
	la2, _ := pa.GetLastProcessedBlock(ctx)
	da, db2 := uint32(0), uint32(0)
	for j := uint32(0); j <= maxDC; j++ {
		if _, e := sa.GetExitRootByIndex(ctx, j); e == nil {
			da = j + 1
		}
		if _, e := sb.GetExitRootByIndex(ctx, j); e == nil {
			db2 = j + 1
		}
	}
	zzverif.Assert("same number of recorded deposits", da == db2)
	nb, _ := zzBridge(la2+1, 0, da, 0)
	zzverif.Assume(nb.Hash() != common.Hash{})
	blk := sync.Block{Num: la2 + 1, Hash: zzverif.Hash("bhNext"), Events: []interface{}{Event{Bridge: nb}}}
	e1 := pa.ProcessBlock(ctx, blk)
	nb2 := *nb
	blk2 := sync.Block{Num: la2 + 1, Hash: blk.Hash, Events: []interface{}{Event{Bridge: &nb2}}}
	e2 := pb.ProcessBlock(ctx, blk2)
	zzverif.Assert("next block accepted on both", e1 == nil && e2 == nil)
	ra, ea := sa.GetExitRootByIndex(ctx, da)
	rb, eb := sb.GetExitRootByIndex(ctx, da)
	zzverif.Assert("next root equal (in-memory frontier agrees)", ea == nil && eb == nil && ra == rb)
}

// ZZVerif_C04_BridgeReorg: process N blocks, reorg at b (0..N+2), process F blocks of the new fork; compare every answer with
// a store that only ever saw the blocks below b and then the fork.
func ZZVerif_C04_BridgeReorg() {
	n := zzverif.Param("N")
	f := zzverif.Param("F")
	b := uint64(zzverif.Param("B"))
	ctx := context.Background()
	pathA := zzverif.TempDB("a")
	pa := zzNewProcessor(pathA)
	pb := zzNewProcessor(zzverif.TempDB("b"))
	dc := uint32(0)
	blocks := zzBlocks(1, n, &dc, "", zzverif.Param("LAYOUT"))
	dcBelow := uint32(0)
	for _, blk := range blocks {
		zzverif.Assert("A: block processed", pa.ProcessBlock(ctx, blk) == nil)
		if blk.Num < b {
			// B gets its own copies of the events (ProcessBlock may touch them)
			cp := sync.Block{Num: blk.Num, Hash: blk.Hash}
			for _, e := range blk.Events {
				ev := e.(Event)
				if ev.Bridge != nil {
					x := *ev.Bridge
					cp.Events = append(cp.Events, Event{Bridge: &x})
					dcBelow++
				} else {
					x := *ev.Claim
					cp.Events = append(cp.Events, Event{Claim: &x})
				}
			}
			zzverif.Assert("B: block processed", pb.ProcessBlock(ctx, cp) == nil)
		}
	}
	if zzverif.Param("RESTART") == 1 {
		pa = zzNewProcessor(pathA)
	}
	zzverif.Assert("reorg ok", pa.Reorg(ctx, b) == nil)
	// the new fork: blocks from min(b, N+1) on
	first := b
	if first > uint64(n)+1 {
		first = uint64(n) + 1
	}
	if first == 0 {
		first = 1
	}
	dcFork := dcBelow
	fork := zzBlocks(first, f, &dcFork, "F", zzverif.Param("FLAYOUT"))
	for _, blk := range fork {
		cp := sync.Block{Num: blk.Num, Hash: blk.Hash}
		for _, e := range blk.Events {
			ev := e.(Event)
			if ev.Bridge != nil {
				x := *ev.Bridge
				cp.Events = append(cp.Events, Event{Bridge: &x})
			} else {
				x := *ev.Claim
				cp.Events = append(cp.Events, Event{Claim: &x})
			}
		}
		zzverif.Assert("A: fork block processed", pa.ProcessBlock(ctx, blk) == nil)
		zzverif.Assert("B: fork block processed", pb.ProcessBlock(ctx, cp) == nil)
	}
	zzSameAnswers(ctx, pa, pb, dc+uint32(f), uint64(n+f)+1)
	zzverif.Reach("end")
}
