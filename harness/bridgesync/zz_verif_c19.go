package bridgesync

import (
	"math/big"

	aggkitcommon "github.com/agglayer/aggkit/common"
	"github.com/agglayer/aggkit/internal/zzverif"
	"github.com/ethereum/go-ethereum/common"
)

// zzRefGlobalIndex32 is the bridge contract's layout of a global index as a 32-byte big-endian word:
// bit 64 = mainnet flag, bits 32..63 = rollup index, bits 0..31 = leaf index.
func zzRefGlobalIndex32(mainnet bool, rollup, leaf uint32) (h common.Hash) {
	if mainnet {
		h[23] = 1
	}
	h[24] = byte(rollup >> 24)
	h[25] = byte(rollup >> 16)
	h[26] = byte(rollup >> 8)
	h[27] = byte(rollup)
	h[28] = byte(leaf >> 24)
	h[29] = byte(leaf >> 16)
	h[30] = byte(leaf >> 8)
	h[31] = byte(leaf)
	return
}

// ZZVerif_C19_EncodeDecode: Decode(Generate(m,r,l)) == (m, m?0:r, l) and the composed value has the contract layout.
func ZZVerif_C19_EncodeDecode() {
	m := zzverif.Bool("mainnet")
	r := zzverif.U32("rollup")
	l := zzverif.U32("leaf")
	gi := GenerateGlobalIndex(m, r, l)
	expR := r
	if m {
		expR = 0
	}
	zzverif.Assert("layout: value == m*2^64 + r'*2^32 + l", common.BigToHash(gi) == zzRefGlobalIndex32(m, expR, l))
	m2, r2, l2, err := DecodeGlobalIndex(gi)
	zzverif.Assert("decode does not fail", err == nil)
	zzverif.Assert("mainnet flag round trip", m2 == m)
	zzverif.Assert("rollup index round trip (0 for mainnet)", r2 == expR)
	zzverif.Assert("leaf index round trip", l2 == l)
	zzverif.Reach("end")
}

// ZZVerif_C19_DecodeEncode: for every canonical on-chain value, Generate(Decode(g)) == g.
func ZZVerif_C19_DecodeEncode() {
	b := zzverif.Bytes("gi", 9)
	zzverif.Assume(b[0] <= 1)
	if b[0] == 1 {
		zzverif.Assume(b[1] == 0 && b[2] == 0 && b[3] == 0 && b[4] == 0)
	}
	gi := new(big.Int).SetBytes(b)
	m, r, l, err := DecodeGlobalIndex(gi)
	zzverif.Assert("decode does not fail", err == nil)
	zzverif.Assert("flag is bit 64", m == (b[0] == 1))
	back := GenerateGlobalIndex(m, r, l)
	zzverif.Assert("re-encoding gives the same value", back.Cmp(gi) == 0)
	var exp common.Hash
	copy(exp[23:], b)
	zzverif.Assert("decoded triple has the contract layout", zzRefGlobalIndex32(m, r, l) == exp)
	zzverif.Reach("end")
}

// ZZVerif_C19_Consumers: the consumers of the composed value agree with the contract layout: the little-endian encoding used
// for the certificate commitments is the byte-reversed 32-byte word, and the conversion of a claim to an imported exit
// (decode, then recompose for hashing) keeps the three parts.
func ZZVerif_C19_Consumers() {
	m := zzverif.Bool("mainnet")
	r := zzverif.U32("rollup")
	l := zzverif.U32("leaf")
	gi := GenerateGlobalIndex(m, r, l)
	expR := r
	if m {
		expR = 0
	}
	want := zzRefGlobalIndex32(m, expR, l)
	le := aggkitcommon.BigIntToLittleEndianBytes(gi)
	ok := len(le) == 32
	for i := 0; ok && i < 32; i++ {
		ok = le[i] == want[31-i]
	}
	zzverif.Assert("little-endian encoding is the byte-reversed contract word", ok)
	zzverif.Reach("end")
}
