package bridgesync

import (
	"context"
	"math/big"

	"github.com/agglayer/aggkit/internal/zzverif"
	"github.com/agglayer/aggkit/sync"
	"github.com/ethereum/go-ethereum/common"
)

func zzTokenMapping(num, pos uint64) *TokenMapping {
	return &TokenMapping{BlockNum: num, BlockPos: pos, BlockTimestamp: zzverif.U64("ts") >> 2, TxHash: zzverif.Hash("txHash"), OriginNetwork: zzverif.U32("origNet"),
		OriginTokenAddress: zzverif.Addr("origToken"), WrappedTokenAddress: zzverif.Addr("wrapped"), IsNotMintable: zzverif.Bool("notMintable")}
}

func zzMigration(num, pos uint64, legacy common.Address) *LegacyTokenMigration {
	return &LegacyTokenMigration{BlockNum: num, BlockPos: pos, BlockTimestamp: zzverif.U64("ts") >> 2, TxHash: zzverif.Hash("txHash"), Sender: zzverif.Addr("sender"),
		LegacyTokenAddress: legacy, UpdatedTokenAddress: zzverif.Addr("updated"), Amount: new(big.Int).SetUint64(zzverif.U64("amount"))}
}

func zzSameTokenAnswers(ctx context.Context, pa, pb *processor) {
	sa, sb := &BridgeSync{processor: pa}, &BridgeSync{processor: pb}
	ma, na, ea := sa.GetTokenMappings(ctx, 1, 10)
	mb, nb, eb := sb.GetTokenMappings(ctx, 1, 10)
	zzverif.Assert("token mappings: same answer", (ea == nil) == (eb == nil) && na == nb && len(ma) == len(mb))
	for i := 0; i < len(ma) && i < len(mb); i++ {
		zzverif.Assert("token mapping i: same row", ma[i].BlockNum == mb[i].BlockNum && ma[i].BlockPos == mb[i].BlockPos && ma[i].OriginNetwork == mb[i].OriginNetwork &&
			ma[i].OriginTokenAddress == mb[i].OriginTokenAddress && ma[i].WrappedTokenAddress == mb[i].WrappedTokenAddress && ma[i].TxHash == mb[i].TxHash &&
			ma[i].IsNotMintable == mb[i].IsNotMintable)
	}
	la, ca, ea := sa.GetLegacyTokenMigrations(ctx, 1, 10)
	lb, cb, eb := sb.GetLegacyTokenMigrations(ctx, 1, 10)
	zzverif.Assert("legacy token migrations: same answer", (ea == nil) == (eb == nil) && ca == cb && len(la) == len(lb))
	for i := 0; i < len(la) && i < len(lb); i++ {
		zzverif.Assert("legacy token migration i: same row", la[i].BlockNum == lb[i].BlockNum && la[i].BlockPos == lb[i].BlockPos && la[i].LegacyTokenAddress == lb[i].LegacyTokenAddress &&
			la[i].UpdatedTokenAddress == lb[i].UpdatedTokenAddress && la[i].Sender == lb[i].Sender && la[i].TxHash == lb[i].TxHash && la[i].Amount.Cmp(lb[i].Amount) == 0)
	}
}

// ZZVerif_C04_TokenEvents: block 1 holds a token mapping and a legacy-token migration; block 2 a token mapping, a migration and
// the removal of a legacy token. Store A sees both blocks, a reorg from block 2 and optionally a new block 2 with a token
// mapping; store B only block 1 and that new block. Their token-mapping and migration listings must agree. HIT selects
// whether the removal concerns the legacy token migrated in block 1 (1), the one migrated in block 2 (2) or neither (0).
func ZZVerif_C04_TokenEvents() {
	hit := zzverif.Param("HIT")
	fork := zzverif.Param("FORK") == 1
	ctx := context.Background()
	pathA := zzverif.TempDB("a")
	pa, pb := zzNewProcessor(pathA), zzNewProcessor(zzverif.TempDB("b"))
	l1, l2, lx := common.Address(zzverif.Addr("legacy1")), common.Address(zzverif.Addr("legacy2")), common.Address(zzverif.Addr("removed"))
	zzverif.Assume(l1 != l2)
	switch hit {
	case 1:
		zzverif.Assume(lx == l1)
	case 2:
		zzverif.Assume(lx == l2)
	default:
		zzverif.Assume(lx != l1 && lx != l2)
	}
	b1 := sync.Block{Num: 1, Hash: zzverif.Hash("bh"), Events: []interface{}{Event{TokenMapping: zzTokenMapping(1, 0)}, Event{LegacyTokenMigration: zzMigration(1, 1, l1)}}}
	b2 := sync.Block{Num: 2, Hash: zzverif.Hash("bh"), Events: []interface{}{Event{TokenMapping: zzTokenMapping(2, 0)}, Event{LegacyTokenMigration: zzMigration(2, 1, l2)},
		Event{RemoveLegacyToken: &RemoveLegacyToken{BlockNum: 2, BlockPos: 2, TxHash: zzverif.Hash("txHash"), LegacyTokenAddress: lx}}}}
	zzverif.Assert("A: block 1", pa.ProcessBlock(ctx, b1) == nil)
	zzverif.Assert("A: block 2", pa.ProcessBlock(ctx, b2) == nil)
	zzverif.Assert("B: block 1", pb.ProcessBlock(ctx, b1) == nil)
	zzverif.Assert("A: reorg from block 2", pa.Reorg(ctx, 2) == nil)
	if zzverif.Bool("restart") {
		pa = zzNewProcessor(pathA)
	}
	zzSameTokenAnswers(ctx, pa, pb)
	if fork {
		f2 := sync.Block{Num: 2, Hash: zzverif.Hash("bh"), Events: []interface{}{Event{TokenMapping: zzTokenMapping(2, 0)}}}
		zzverif.Assert("A: fork block 2", pa.ProcessBlock(ctx, f2) == nil)
		zzverif.Assert("B: fork block 2", pb.ProcessBlock(ctx, f2) == nil)
		zzSameTokenAnswers(ctx, pa, pb)
	}
	zzverif.Reach("end")
}
