package bridgesync

import (
	"context"
	"math/big"

	"github.com/agglayer/aggkit/internal/zzverif"
	"github.com/agglayer/aggkit/log"
	"github.com/agglayer/aggkit/sync"
	"github.com/ethereum/go-ethereum/common"
	"github.com/ethereum/go-ethereum/crypto"
)

// zzRefContract is a transliteration of DepositContractBase (_addLeaf / getRoot) of the bridge contract.
type zzRefContract struct {
	branch [32]common.Hash
	count  uint32
}

func (c *zzRefContract) addLeaf(leaf common.Hash) {
	node := leaf
	c.count++
	size := c.count
	for h := 0; h < 32; h++ {
		if (size>>h)&1 == 1 {
			c.branch[h] = node
			return
		}
		node = crypto.Keccak256Hash(c.branch[h][:], node[:])
	}
}

func (c *zzRefContract) getRoot() common.Hash {
	var node, zero common.Hash
	size := c.count
	for h := 0; h < 32; h++ {
		if (size>>h)&1 == 1 {
			node = crypto.Keccak256Hash(c.branch[h][:], node[:])
		} else {
			node = crypto.Keccak256Hash(node[:], zero[:])
		}
		zero = crypto.Keccak256Hash(zero[:], zero[:])
	}
	return node
}

// zzRefLeafValue is PolygonZkEVMBridgeV2.getLeafValue:
// keccak256(abi.encodePacked(uint8 leafType, uint32 originNetwork, address originAddress, uint32 destinationNetwork,
// address destinationAddress, uint256 amount, bytes32 metadataHash)) with metadataHash = keccak256(metadata)
func zzRefLeafValue(leafType uint8, origNet uint32, origAddr common.Address, destNet uint32, destAddr common.Address,
	amount common.Hash, metadata []byte) common.Hash {
	buf := make([]byte, 0, 113)
	buf = append(buf, leafType)
	buf = append(buf, byte(origNet>>24), byte(origNet>>16), byte(origNet>>8), byte(origNet))
	buf = append(buf, origAddr[:]...)
	buf = append(buf, byte(destNet>>24), byte(destNet>>16), byte(destNet>>8), byte(destNet))
	buf = append(buf, destAddr[:]...)
	buf = append(buf, amount[:]...)
	mh := crypto.Keccak256Hash(metadata)
	buf = append(buf, mh[:]...)
	return crypto.Keccak256Hash(buf)
}

// zzBridge builds a bridge event with arbitrary field values (amount: nil or any uint256), metadata of ML bytes.
func zzBridge(blockNum, blockPos uint64, depositCount uint32, ml int) (*Bridge, common.Hash) {
	amt := common.Hash(zzverif.Hash("amount"))
	b := &Bridge{
		BlockNum:           blockNum,
		BlockPos:           blockPos,
		FromAddress:        zzverif.Addr("from"),
		TxHash:             zzverif.Hash("txhash"),
		BlockTimestamp:     zzverif.U64("ts") >> 2,
		LeafType:           zzverif.U8("leafType"),
		OriginNetwork:      zzverif.U32("origNet"),
		OriginAddress:      zzverif.Addr("origAddr"),
		DestinationNetwork: zzverif.U32("destNet"),
		DestinationAddress: zzverif.Addr("destAddr"),
		Amount:             new(big.Int).SetBytes(amt[:]),
		Metadata:           zzverif.Bytes("metadata", ml),
		DepositCount:       depositCount,
		IsNativeToken:      zzverif.Bool("native"),
	}
	want := zzRefLeafValue(b.LeafType, b.OriginNetwork, b.OriginAddress, b.DestinationNetwork, b.DestinationAddress, amt, b.Metadata)
	return b, want
}

func zzNewProcessor(path string) *processor {
	p, err := newProcessor(path, "zzverif", log.GetDefaultLogger())
	if err != nil {
		panic(err)
	}
	return p
}

// ZZVerif_C01_Leaf: the leaf the node uses for a deposit equals the contract's leaf value, for all field values.
func ZZVerif_C01_Leaf() {
	ml := zzverif.Param("ML")
	b, want := zzBridge(1, 0, zzverif.U32("dc"), ml)
	if zzverif.Bool("nilAmount") {
		b.Amount = nil
		want = zzRefLeafValue(b.LeafType, b.OriginNetwork, b.OriginAddress, b.DestinationNetwork, b.DestinationAddress, common.Hash{}, b.Metadata)
	}
	zzverif.Observe("leaf", b.Hash())
	zzverif.Assert("leaf == contract getLeafValue", b.Hash() == want)
	zzverif.Reach("end")
}

// ZZVerif_C01_Blocks: K deposits, arbitrarily partitioned into blocks (also empty blocks in between), processed by the real
// bridge processor; a restart (new processor object on the same store) possible before every block. For every deposit
// count i the root served equals the contract's root after deposit i+1 and the bridges are served back unchanged.
func ZZVerif_C01_Blocks() {
	k := zzverif.Param("K")
	ml := zzverif.Param("ML")
	ctx := context.Background()
	path := zzverif.TempDB("bridge")
	p := zzNewProcessor(path)
	ref := &zzRefContract{}
	roots := make([]common.Hash, 0, k)
	blockNum := uint64(0)
	i := 0
	for i < k {
		blockNum++
		if zzverif.Bool("emptyBlock") {
			zzverif.Assert("empty block ok", p.ProcessBlock(ctx, sync.Block{Num: blockNum, Hash: zzverif.Hash("bh")}) == nil)
			blockNum++
		}
		if zzverif.Bool("restart") {
			p = zzNewProcessor(path)
		}
		blk := sync.Block{Num: blockNum, Hash: zzverif.Hash("bh")}
		pos := uint64(0)
		for {
			b, leaf := zzBridge(blockNum, pos, uint32(i), ml)
			blk.Events = append(blk.Events, Event{Bridge: b})
			ref.addLeaf(leaf)
			roots = append(roots, ref.getRoot())
			i++
			pos++
			if i >= k || zzverif.Bool("newBlock") {
				break
			}
		}
		zzverif.Assert("block processed", p.ProcessBlock(ctx, blk) == nil)
	}
	s := &BridgeSync{processor: p}
	j := zzverif.Int("j", 0, k-1)
	r, err := s.GetExitRootByIndex(ctx, uint32(j))
	zzverif.Assert("root served", err == nil)
	zzverif.Observe("root", r.Hash)
	zzverif.Assert("root for deposit count j == contract root after deposit j+1", r.Hash == roots[j] && r.Index == uint32(j))
	byLER, err := s.GetRootByLER(ctx, roots[j])
	zzverif.Assert("root found by LER", err == nil && byLER.Index == uint32(j))
	last, err := s.GetLastProcessedBlock(ctx)
	zzverif.Assert("last processed block", err == nil && last == blockNum)
	bs, err := s.GetBridges(ctx, 1, blockNum)
	zzverif.Assert("bridges served", err == nil && len(bs) == k)
	if err == nil && len(bs) == k {
		zzverif.Assert("bridge j has deposit count j and hashes to the leaf", bs[j].DepositCount == uint32(j))
	}
	zzverif.Reach("end")
}
