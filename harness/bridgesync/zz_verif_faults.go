package bridgesync

import (
	"context"

	"github.com/agglayer/aggkit/internal/zzverif"
	"github.com/agglayer/aggkit/sync"
	"github.com/ethereum/go-ethereum/common"
)

var zzBridgeTables = []string{"block", "bridge", "claim", "root", "rht"}

func zzCopyBlock(blk sync.Block) sync.Block {
	cp := sync.Block{Num: blk.Num, Hash: blk.Hash}
	for _, e := range blk.Events {
		ev := e.(Event)
		if ev.Bridge != nil {
			x := *ev.Bridge
			cp.Events = append(cp.Events, Event{Bridge: &x})
		} else {
			x := *ev.Claim
			cp.Events = append(cp.Events, Event{Claim: &x})
		}
	}
	return cp
}

// ZZVerif_C07_BridgeFault: M committed blocks; then a block with NB bridges (+ optional claim) during which the FN-th insert
// into table T fails (or the context is already cancelled: T = -1). The failed block must leave no trace (all answers equal
// those of a store that never saw it); the same block processed again without fault must give exactly the state of a
// fault-free run, including the next root (in-memory frontier) and every proof.
func ZZVerif_C07_BridgeFault() {
	m := zzverif.Param("M")
	nb := zzverif.Param("NB")
	ti := zzverif.Param("T")
	fn := zzverif.Param("FN")
	ctx := context.Background()
	pathA := zzverif.TempDB("a")
	pa := zzNewProcessor(pathA)
	pb := zzNewProcessor(zzverif.TempDB("b"))
	dc := uint32(0)
	for _, blk := range zzBlocks(1, m, &dc, "", zzverif.Param("LAYOUT")) {
		zzverif.Assert("A: block processed", pa.ProcessBlock(ctx, blk) == nil)
		zzverif.Assert("B: block processed", pb.ProcessBlock(ctx, zzCopyBlock(blk)) == nil)
	}
	num := uint64(m + 1)
	x := sync.Block{Num: num, Hash: zzverif.Hash("bhX")}
	dcX := dc
	for i := 0; i < nb; i++ {
		b, _ := zzBridge(num, uint64(i), dcX, 1)
		zzverif.Assume(b.Hash() != common.Hash{})
		x.Events = append(x.Events, Event{Bridge: b})
		dcX++
	}
	if zzverif.Bool("xHasClaim") {
		x.Events = append(x.Events, Event{Claim: zzClaim(num, uint64(nb))})
	}
	var err error
	if ti < 0 {
		cctx, cancel := context.WithCancel(ctx)
		cancel()
		err = pa.ProcessBlock(cctx, zzCopyBlock(x))
		zzverif.Assert("cancelled context: block refused", err != nil)
	} else {
		zzverif.FailInsert(pa.db, zzBridgeTables[ti], fn)
		err = pa.ProcessBlock(ctx, zzCopyBlock(x))
		zzverif.ClearFaults(pa.db, zzBridgeTables[ti])
	}
	if err == nil {
		// the fault position was beyond the statements of this block: nothing to check (vacuous case)
		zzverif.Reach("fault-not-hit")
		return
	}
	zzverif.Reach("fault-hit")
	if zzverif.Bool("restartAfterFault") {
		pa = zzNewProcessor(pathA)
	}
	// (1) all-or-nothing: A answers like B, which never saw block X
	la, ea := pa.GetLastProcessedBlock(ctx)
	lb, eb := pb.GetLastProcessedBlock(ctx)
	zzverif.Assert("failed block left no last-processed trace", ea == nil && eb == nil && la == lb)
	ba, ea := pa.GetBridges(ctx, 0, la)
	bb, eb := pb.GetBridges(ctx, 0, lb)
	zzverif.Assert("failed block left no bridges", ea == nil && eb == nil && len(ba) == len(bb))
	ca, ea := pa.GetClaims(ctx, 0, la)
	cb, eb := pb.GetClaims(ctx, 0, lb)
	zzverif.Assert("failed block left no claims", ea == nil && eb == nil && len(ca) == len(cb))
	for j := dc; j < dcX; j++ {
		_, e := pa.exitTree.GetRootByIndex(ctx, j)
		zzverif.Assert("failed block left no root", e != nil)
	}
	// (2) clean retry: same block again on A, first time on B
	zzverif.Assert("A: retry succeeds", pa.ProcessBlock(ctx, zzCopyBlock(x)) == nil)
	zzverif.Assert("B: block processed", pb.ProcessBlock(ctx, zzCopyBlock(x)) == nil)
	zzSameAnswers(ctx, pa, pb, dcX+1, num+1)
	zzverif.Reach("end")
}
