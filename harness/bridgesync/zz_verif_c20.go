package bridgesync

import (
	"errors"
	"math/big"

	"github.com/0xPolygon/cdk-contracts-tooling/contracts/fep/etrog/polygonzkevmbridge"
	"github.com/0xPolygon/cdk-contracts-tooling/contracts/pp/l2-sovereign-chain/polygonzkevmbridgev2"
	"github.com/agglayer/aggkit/internal/zzverif"
	"github.com/agglayer/aggkit/log"
	tree "github.com/agglayer/aggkit/tree/types"
	"github.com/ethereum/go-ethereum/common"
)

// zzClaimCall holds the arguments of one claimAsset/claimMessage call (both contract generations).
type zzClaimCall struct {
	proofLER, proofRER [tree.DefaultHeight][common.HashLength]byte
	globalIndex        *big.Int
	mer, rer           [32]byte
	origNet            uint32
	origAddr           common.Address
	destNet            uint32
	destAddr           common.Address
	amount             *big.Int
	metadata           []byte
}

// zzPackClaim returns the ABI calldata of a claim call. kind: 0 claimAsset (etrog), 1 claimMessage (etrog), 2 claimAsset
// (pre-etrog), 3 claimMessage (pre-etrog). Natively this is go-ethereum's ABI packer on the generated bindings' ABI; the
// engine replaces it (and Arguments.Unpack) by an abstract constructor / destructor pair.
func zzPackClaim(kind int, c *zzClaimCall) []byte {
	if kind < 2 {
		a, err := polygonzkevmbridgev2.Polygonzkevmbridgev2MetaData.GetAbi()
		if err != nil {
			panic(err)
		}
		name := "claimAsset"
		if kind == 1 {
			name = "claimMessage"
		}
		out, err := a.Pack(name, c.proofLER, c.proofRER, c.globalIndex, c.mer, c.rer, c.origNet, c.origAddr, c.destNet, c.destAddr, c.amount, c.metadata)
		if err != nil {
			panic(err)
		}
		return out
	}
	a, err := polygonzkevmbridge.PolygonzkevmbridgeMetaData.GetAbi()
	if err != nil {
		panic(err)
	}
	name := "claimAsset"
	if kind == 3 {
		name = "claimMessage"
	}
	out, err := a.Pack(name, c.proofLER, uint32(c.globalIndex.Uint64()), c.mer, c.rer, c.origNet, c.origAddr, c.destNet, c.destAddr, c.amount, c.metadata)
	if err != nil {
		panic(err)
	}
	return out
}

type zzRPC struct{ root call }

func (r *zzRPC) Call(result any, method string, args ...any) error {
	c, ok := result.(*call)
	if !ok {
		return errors.New("unexpected result type")
	}
	*c = r.root
	return nil
}

type zzFrameSpec struct {
	reverted, toBridge, matches bool
	kind                        int
	cc                          *zzClaimCall
	from                        common.Address
}

// ZZVerif_C20_ClaimCalldata: a call tree of NF frames with the shape given by SHAPE (parent of frame i = digit i of SHAPE in base
// NF); every frame may be reverted, addressed to the bridge or not, a claim call of any of the four kinds, with the event's
// global index or another one. The recorded claim details are those of a frame that is addressed to the bridge, matches the
// global index and has no reverted ancestor-or-self; if there is none, an error is returned and nothing is recorded.
func ZZVerif_C20_ClaimCalldata() {
	nf := zzverif.Param("NF")
	shape := zzverif.Param("SHAPE")
	bridge := common.Address(zzverif.Addr("bridge"))
	other := common.Address(zzverif.Addr("other"))
	zzverif.Assume(bridge != other)
	preEtrogEvent := zzverif.Param("PRE") == 1
	var gi *big.Int
	if preEtrogEvent {
		gi = new(big.Int).SetUint64(uint64(zzverif.U32("eventIndex")))
	} else {
		gi = GenerateGlobalIndex(zzverif.Bool("giMainnet"), zzverif.U32("giRollup"), zzverif.U32("giLeaf"))
	}
	frames := make([]call, nf)
	specs := make([]zzFrameSpec, nf)
	parent := make([]int, nf)
	for i := 0; i < nf; i++ {
		parent[i] = shape % nf
		shape /= nf
		s := zzFrameSpec{reverted: zzverif.Bool("reverted"), from: zzverif.Addr("from")}
		switch zzverif.Int("frameKind", 0, 2) {
		case 0: // not addressed to the bridge
		case 1: // claim call to the bridge with the event's global index
			s.toBridge, s.matches = true, true
		case 2: // claim call to the bridge with another global index
			s.toBridge = true
		}
		if s.toBridge {
			s.kind = zzverif.Int("callKind", 0, 1)
			if preEtrogEvent {
				s.kind += 2
			}
			if zzverif.Param("MIXED") == 1 {
				// calls of either contract generation next to an event of either generation
				s.kind = zzverif.Int("callKindAny", 0, 3)
			}
			cc := &zzClaimCall{globalIndex: gi, mer: zzverif.Hash("mer"), rer: zzverif.Hash("rer"), origNet: zzverif.U32("origNet"), origAddr: zzverif.Addr("origAddr"),
				destNet: zzverif.U32("destNet"), destAddr: zzverif.Addr("destAddr"), amount: new(big.Int).SetUint64(zzverif.U64("amount")), metadata: zzverif.Bytes("metadata", 2)}
			if !s.matches {
				// any other global index (it may agree with the event's in some of its parts: flag, rollup, leaf)
				var giOther *big.Int
				if s.kind >= 2 {
					giOther = new(big.Int).SetUint64(uint64(zzverif.U32("otherIndex")))
				} else {
					giOther = GenerateGlobalIndex(zzverif.Bool("otherMainnet"), zzverif.U32("otherRollup"), zzverif.U32("otherLeaf"))
				}
				zzverif.Assume(giOther.Cmp(gi) != 0)
				cc.globalIndex = giOther
			} else if s.kind >= 2 {
				// a pre-etrog call carries a 32-bit index: it matches only an event whose global index fits into 32 bits
				zzverif.Assume(gi.IsUint64() && gi.Uint64() < 1<<32)
			}
			cc.proofLER[0] = zzverif.Hash("pl0")
			cc.proofLER[31] = zzverif.Hash("pl31")
			cc.proofRER[7] = zzverif.Hash("pr7")
			s.cc = cc
		}
		specs[i] = s
	}
	// build the tree bottom-up (children after parents in index order)
	for i := nf - 1; i >= 0; i-- {
		s := specs[i]
		f := call{From: s.from, To: other}
		if s.toBridge {
			f.To = bridge
			f.Input = zzPackClaim(s.kind, s.cc)
		}
		if s.reverted {
			msg := "execution reverted"
			f.Err = &msg
		}
		for j := i + 1; j < nf; j++ {
			if parent[j] == i {
				f.Calls = append(f.Calls, frames[j])
			}
		}
		frames[i] = f
	}
	claim := &Claim{GlobalIndex: gi, DestinationNetwork: 4242}
	err := claim.setClaimCalldata(&zzRPC{root: frames[0]}, bridge, zzverif.Hash("txHash"), log.GetDefaultLogger())
	// oracle: frames that are to the bridge, match, and have no reverted ancestor-or-self
	anyGood := false
	recordedFromGood := false
	for i := 0; i < nf; i++ {
		s := specs[i]
		ok := s.toBridge && s.matches
		for a := i; ; a = parent[a] {
			if specs[a].reverted {
				ok = false
			}
			if a == 0 {
				break
			}
		}
		if !ok {
			continue
		}
		anyGood = true
		same := claim.MainnetExitRoot == common.Hash(s.cc.mer) && claim.RollupExitRoot == common.Hash(s.cc.rer) && claim.DestinationNetwork == s.cc.destNet &&
			claim.FromAddress == s.from && claim.IsMessage == (s.kind == 1 || s.kind == 3) && len(claim.Metadata) == 2 &&
			claim.Metadata[0] == s.cc.metadata[0] && claim.Metadata[1] == s.cc.metadata[1] &&
			claim.ProofLocalExitRoot[0] == common.Hash(s.cc.proofLER[0]) && claim.ProofLocalExitRoot[31] == common.Hash(s.cc.proofLER[31])
		if s.kind < 2 {
			same = same && claim.ProofRollupExitRoot[7] == common.Hash(s.cc.proofRER[7])
		}
		if same {
			recordedFromGood = true
		}
	}
	if anyGood {
		zzverif.Reach("found")
		zzverif.Assert("a matching non-reverted bridge call exists: no error", err == nil)
		zzverif.Assert("recorded details are those of a matching, non-reverted call to the bridge", recordedFromGood)
	} else {
		zzverif.Reach("none")
		zzverif.Assert("no matching non-reverted bridge call: error", err != nil)
		zzverif.Assert("no matching call: nothing recorded", claim.DestinationNetwork == 4242 && claim.MainnetExitRoot == common.Hash{} &&
			claim.FromAddress == common.Address{} && claim.Metadata == nil && !claim.IsMessage)
	}
}
