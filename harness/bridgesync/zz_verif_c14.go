package bridgesync

import (
	"context"
	"errors"

	"github.com/agglayer/aggkit/internal/zzverif"
	"github.com/agglayer/aggkit/sync"
	"github.com/ethereum/go-ethereum/common"
)

// ZZVerif_C14_Bridge: a deposit-count gap halts the bridge syncer: the offending block is not recorded, further blocks are
// refused, every data query answers ErrInconsistentState; a reorg clears the condition exactly when it removes a block.
func ZZVerif_C14_Bridge() {
	ctx := context.Background()
	p := zzNewProcessor(zzverif.TempDB("bridge"))
	b0, _ := zzBridge(1, 0, 0, 0)
	zzverif.Assume(b0.Hash() != common.Hash{})
	zzverif.Assert("block 1 processed", p.ProcessBlock(ctx, sync.Block{Num: 1, Hash: zzverif.Hash("bh"), Events: []interface{}{Event{Bridge: b0}}}) == nil)
	gap := zzverif.U32("gapCount")
	zzverif.Assume(gap != 1)
	b1, _ := zzBridge(2, 0, gap, 0)
	err := p.ProcessBlock(ctx, sync.Block{Num: 2, Hash: zzverif.Hash("bh"), Events: []interface{}{Event{Bridge: b1}}})
	zzverif.Assert("deposit count gap: ErrInconsistentState", errors.Is(err, sync.ErrInconsistentState))
	zzverif.Assert("deposit count gap: halted", p.isHalted())
	zzverif.Assert("halted: further blocks refused", errors.Is(p.ProcessBlock(ctx, sync.Block{Num: 2}), sync.ErrInconsistentState))
	s := &BridgeSync{processor: p}
	h := common.Hash(zzverif.Hash("anyHash"))
	u := zzverif.U32("anyU32")
	x, y := zzverif.U64("anyFrom"), zzverif.U64("anyTo")
	isInc := func(e error) bool { return errors.Is(e, sync.ErrInconsistentState) }
	_, e1 := s.GetLastProcessedBlock(ctx)
	_, e2 := s.GetBridgeRootByHash(ctx, h)
	_, e3 := s.GetClaims(ctx, x, y)
	_, e4 := s.GetBridges(ctx, x, y)
	_, _, e5 := s.GetTokenMappings(ctx, u, u)
	_, _, e6 := s.GetLegacyTokenMigrations(ctx, u, u)
	_, e7 := s.GetProof(ctx, u, h)
	_, e8 := s.GetBlockByLER(ctx, h)
	_, e9 := s.GetRootByLER(ctx, h)
	_, e10 := s.GetExitRootByIndex(ctx, u)
	_, e11 := s.GetContractDepositCount(ctx)
	_, _, e12 := s.GetClaimsPaged(ctx, u, u, nil, "")
	_, _, e13 := s.GetBridgesPaged(ctx, u, u, nil, nil, "")
	zzverif.Assert("halted: GetLastProcessedBlock", isInc(e1))
	zzverif.Assert("halted: GetBridgeRootByHash", isInc(e2))
	zzverif.Assert("halted: GetClaims", isInc(e3))
	zzverif.Assert("halted: GetBridges", isInc(e4))
	zzverif.Assert("halted: GetTokenMappings", isInc(e5))
	zzverif.Assert("halted: GetLegacyTokenMigrations", isInc(e6))
	zzverif.Assert("halted: GetProof", isInc(e7))
	zzverif.Assert("halted: GetBlockByLER", isInc(e8))
	zzverif.Assert("halted: GetRootByLER", isInc(e9))
	zzverif.Assert("halted: GetExitRootByIndex", isInc(e10))
	zzverif.Assert("halted: GetContractDepositCount", isInc(e11))
	zzverif.Assert("halted: GetClaimsPaged", isInc(e12))
	zzverif.Assert("halted: GetBridgesPaged", isInc(e13))
	// reorg: clears the condition iff it removes a processed block (only block 1 is recorded)
	rb := zzverif.U64("reorgBlock")
	zzverif.Assume(rb < 1<<62)
	zzverif.Assert("reorg ok", p.Reorg(ctx, rb) == nil)
	if rb <= 1 {
		zzverif.Reach("unhalted")
		zzverif.Assert("reorg removed a block: condition cleared", !p.isHalted())
	} else {
		zzverif.Reach("stillhalted")
		zzverif.Assert("reorg removed nothing: still halted", p.isHalted())
		_, e := s.GetBridges(ctx, x, y)
		zzverif.Assert("still halted: queries refuse", isInc(e))
	}
}

// ZZVerif_C14_BridgeFailedReorg: the bridge syncer is halted (deposit-count gap in block 3); a reorg from block RB is attempted
// while deletes on table T fail. The reorg reports the error, removes nothing and the syncer stays halted; once the fault is
// gone the same reorg succeeds and clears the condition.
func ZZVerif_C14_BridgeFailedReorg() {
	ctx := context.Background()
	rb := uint64(zzverif.Param("RB"))
	table := []string{"block", "root"}[zzverif.Param("T")]
	p := zzNewProcessor(zzverif.TempDB("bridge"))
	for n := uint64(1); n <= 2; n++ {
		b, _ := zzBridge(n, 0, uint32(n-1), 0)
		zzverif.Assume(b.Hash() != common.Hash{})
		zzverif.Assume(p.ProcessBlock(ctx, sync.Block{Num: n, Hash: zzverif.Hash("bh"), Events: []interface{}{Event{Bridge: b}}}) == nil)
	}
	gap := zzverif.U32("gapCount")
	zzverif.Assume(gap != 2)
	bg, _ := zzBridge(3, 0, gap, 0)
	err := p.ProcessBlock(ctx, sync.Block{Num: 3, Hash: zzverif.Hash("bh"), Events: []interface{}{Event{Bridge: bg}}})
	zzverif.Assert("halted", errors.Is(err, sync.ErrInconsistentState) && p.isHalted())
	zzverif.FailDelete(p.db, table)
	err = p.Reorg(ctx, rb)
	zzverif.ClearFaults(p.db, table)
	zzverif.Assert("a reorg whose deletes fail reports the error", err != nil)
	zzverif.Assert("failed reorg: still halted", p.isHalted())
	lp, err := p.GetLastProcessedBlock(ctx)
	zzverif.Assert("failed reorg: no block removed", err == nil && lp == 2)
	s := &BridgeSync{processor: p}
	_, e := s.GetLastProcessedBlock(ctx)
	zzverif.Assert("failed reorg: queries still refuse", errors.Is(e, sync.ErrInconsistentState))
	zzverif.Assert("reorg without the fault succeeds", p.Reorg(ctx, rb) == nil)
	zzverif.Assert("and clears the condition", !p.isHalted())
	lp, err = p.GetLastProcessedBlock(ctx)
	zzverif.Assert("and removes the blocks", err == nil && lp == rb-1)
	zzverif.Reach("end")
}
