package aggoracle

import (
	"context"
	"errors"
	"math/big"

	"github.com/agglayer/aggkit/internal/zzverif"
	"github.com/agglayer/aggkit/l1infotreesync"
	"github.com/agglayer/aggkit/log"
	aggkittypes "github.com/agglayer/aggkit/types"
	"github.com/ethereum/go-ethereum"
	"github.com/ethereum/go-ethereum/common"
	"github.com/ethereum/go-ethereum/core/types"
)

// zzL1 is the L1 node: the block with the configured finality, the head (at or above it), any block by number; the query by
// finality tag and the other queries may fail independently.
type zzL1 struct {
	ethereum.ChainReader
	finalized uint64
	head      uint64
	fail      bool // the query by finality tag fails
	failOther bool // any other header query fails
	askedTag  bool // a negative (tag) number was asked for
}

func (c *zzL1) HeaderByNumber(ctx context.Context, number *big.Int) (*types.Header, error) {
	if number == nil {
		if c.failOther {
			return nil, errors.New("rpc error")
		}
		return &types.Header{Number: new(big.Int).SetUint64(c.head)}, nil
	}
	if number.Sign() < 0 {
		c.askedTag = true
		if c.fail {
			return nil, errors.New("rpc error")
		}
		return &types.Header{Number: new(big.Int).SetUint64(c.finalized)}, nil
	}
	if c.failOther {
		return nil, errors.New("rpc error")
	}
	return &types.Header{Number: new(big.Int).Set(number)}, nil
}

// zzInfo follows the contract of the real GetLatestInfoUntilBlock (l1infotreesync/processor.go, checked in C11): block 0 is
// refused, a block beyond the last processed one gives ErrBlockNotProcessed, otherwise the latest leaf at or below the block,
// ErrNotFound when there is none.
type zzInfo struct {
	leafBlock []uint64
	leafGER   []common.Hash
	processed uint64
}

func (s *zzInfo) GetLatestInfoUntilBlock(ctx context.Context, blockNum uint64) (*l1infotreesync.L1InfoTreeLeaf, error) {
	if blockNum == 0 {
		return nil, l1infotreesync.ErrNoBlock0
	}
	if s.processed < blockNum {
		return nil, l1infotreesync.ErrBlockNotProcessed
	}
	for i := len(s.leafBlock) - 1; i >= 0; i-- {
		if s.leafBlock[i] <= blockNum {
			return &l1infotreesync.L1InfoTreeLeaf{BlockNumber: s.leafBlock[i], L1InfoTreeIndex: uint32(i), GlobalExitRoot: s.leafGER[i]}, nil
		}
	}
	return nil, l1infotreesync.ErrNotFound
}

type zzSender struct {
	present       []common.Hash
	injected      []common.Hash
	failCheck     bool
	failInject    bool
	checkedBefore bool
}

func (s *zzSender) IsGERInjected(ger common.Hash) (bool, error) {
	if s.failCheck {
		return false, errors.New("rpc error")
	}
	for _, g := range s.present {
		if g == ger {
			return true, nil
		}
	}
	return false, nil
}

func (s *zzSender) InjectGER(ctx context.Context, ger common.Hash) error {
	if s.failInject {
		return errors.New("tx failed")
	}
	s.injected = append(s.injected, ger)
	s.present = append(s.present, ger)
	return nil
}

// ZZVerif_C15_Oracle: NTICK ticks of the real oracle step. Between ticks the finalized L1 block and the info-tree syncer's
// progress advance arbitrarily and every dependency may fail. Every root injected in a tick is the global exit root of the
// latest L1 info leaf at or below the finalized block sampled in that tick; nothing is injected that the L2 contract already
// has; and when the syncer has caught up, no call fails and the latest finalized root is missing on L2, it is injected.
func ZZVerif_C15_Oracle() {
	nticks := zzverif.Param("NTICK")
	nleaves := zzverif.Param("NLEAVES")
	ctx := context.Background()
	info := &zzInfo{}
	prev := uint64(1)
	for i := 0; i < nleaves; i++ {
		b := zzverif.U64("leafBlock")
		zzverif.Assume(b >= prev && b < 1<<40)
		prev = b
		g := common.Hash(zzverif.Hash("ger"))
		for _, o := range info.leafGER {
			zzverif.Assume(o != g)
		}
		info.leafBlock = append(info.leafBlock, b)
		info.leafGER = append(info.leafGER, g)
	}
	l1 := &zzL1{}
	sender := &zzSender{}
	if zzverif.Bool("firstAlreadyOnL2") && nleaves > 0 {
		sender.present = append(sender.present, info.leafGER[0])
	}
	o, err := New(log.GetDefaultLogger(), sender, l1, info, aggkittypes.FinalizedBlock, 0)
	zzverif.Assert("oracle created", err == nil)
	var blockNumToFetch uint64
	for t := 0; t < nticks; t++ {
		f := zzverif.U64("finalized")
		p := zzverif.U64("processed")
		zzverif.Assume(f >= l1.finalized && f >= 1 && f < 1<<40 && p >= info.processed && p < 1<<40)
		h := zzverif.U64("head")
		zzverif.Assume(h >= f && h >= l1.head && h < 1<<40)
		l1.finalized, l1.head, info.processed = f, h, p
		l1.fail, sender.failCheck, sender.failInject = zzverif.Bool("l1Fails"), zzverif.Bool("checkFails"), zzverif.Bool("injectFails")
		l1.failOther = zzverif.Bool("l1OtherFails")
		l1.askedTag = false
		before := len(sender.injected)
		presentBefore := len(sender.present)
		err := o.processLatestGER(ctx, &blockNumToFetch)
		zzverif.Assert("the L1 client is asked for the configured finality", l1.askedTag)
		// the latest leaf at or below the sampled finalized block
		want := -1
		for i := range info.leafBlock {
			if info.leafBlock[i] <= f {
				want = i
			}
		}
		newly := len(sender.injected) - before
		zzverif.Assert("at most one injection per tick", newly <= 1)
		if newly == 1 {
			zzverif.Reach("injected")
			g := sender.injected[before]
			zzverif.Assert("injected root = root of the latest leaf at or below the sampled finalized block", want >= 0 && g == info.leafGER[want])
			zzverif.Assert("injected only when the syncer had processed the finalized block", p >= f)
			for i := 0; i < presentBefore; i++ {
				zzverif.Assert("never injects a root the L2 contract already has", sender.present[i] != g)
			}
			zzverif.Assert("successful injection reports no error", err == nil)
		}
		if !l1.fail && !sender.failCheck && !sender.failInject && p >= f && want >= 0 {
			missing := true
			for i := 0; i < presentBefore; i++ {
				if sender.present[i] == info.leafGER[want] {
					missing = false
				}
			}
			if missing {
				zzverif.Reach("due")
				zzverif.Assert("a finalized root missing on L2 is injected when nothing fails and the syncer has caught up", newly == 1)
			}
		}
		if l1.fail || p < f {
			zzverif.Assert("no injection when the finalized block is unknown or not yet synced", newly == 0 && err != nil)
		}
	}
}
