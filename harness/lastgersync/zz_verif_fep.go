package lastgersync

import (
	"context"
	"errors"
	"math/big"
	"time"

	"github.com/agglayer/aggkit/db"
	"github.com/agglayer/aggkit/internal/zzverif"
	"github.com/agglayer/aggkit/l1infotreesync"
	"github.com/agglayer/aggkit/sync"
	treetypes "github.com/agglayer/aggkit/tree/types"
	aggkittypes "github.com/agglayer/aggkit/types"
	ethereum "github.com/ethereum/go-ethereum"
	"github.com/ethereum/go-ethereum/common"
	"github.com/ethereum/go-ethereum/core/types"
)

// zzFEPChain is the L2 node as the FEP downloader sees it: the tip reported at the j-th poll is tips[j], and the GER manager
// contract answers globalExitRootMap(root) from the set of roots injected as of that poll. Each run of the downloader may
// poll `limit` times in total; then its context is cancelled.
type zzFEPChain struct {
	aggkittypes.BaseEthereumClienter
	salt    common.Hash
	tips    []uint64
	inj     [][]bool // inj[j][i]: the root of L1 info leaf i is injected as of poll j
	gers    []common.Hash
	polls   int
	limit   int
	head    uint64
	emitted int // poll whose state the last handed-over block reflects (-1: none)
	cancel  context.CancelFunc
}

func (c *zzFEPChain) header(n uint64) *types.Header {
	return &types.Header{Number: new(big.Int).SetUint64(n), ParentHash: c.salt, Time: n}
}

func (c *zzFEPChain) HeaderByNumber(ctx context.Context, n *big.Int) (*types.Header, error) {
	if ctx.Err() != nil {
		return nil, context.Canceled
	}
	if n == nil || n.Sign() < 0 { // "latest"
		if c.polls >= c.limit {
			c.cancel()
			return nil, context.Canceled
		}
		c.head = c.tips[c.polls]
		c.polls++
		return c.header(c.head), nil
	}
	if n.Uint64() > c.head {
		return nil, ethereum.NotFound
	}
	c.emitted = c.polls - 1
	return c.header(n.Uint64()), nil
}

func (c *zzFEPChain) CallContract(ctx context.Context, msg ethereum.CallMsg, blockNumber *big.Int) ([]byte, error) {
	out := make([]byte, 32)
	if len(msg.Data) != 36 || c.polls == 0 {
		return out, nil
	}
	var g common.Hash
	copy(g[:], msg.Data[4:])
	for i := range c.gers {
		if c.gers[i] == g && c.inj[c.polls-1][i] {
			out[31] = 1 // the contract stores the timestamp of the injection
		}
	}
	return out, nil
}

type zzFEPL1Info struct {
	L1InfoTreeQuerier
	gers []common.Hash
}

func (i *zzFEPL1Info) GetLastL1InfoTreeRoot(ctx context.Context) (treetypes.Root, error) {
	if len(i.gers) == 0 {
		return treetypes.Root{}, db.ErrNotFound
	}
	return treetypes.Root{Index: uint32(len(i.gers) - 1)}, nil
}
func (i *zzFEPL1Info) GetInfoByIndex(ctx context.Context, idx uint32) (*l1infotreesync.L1InfoTreeLeaf, error) {
	if int(idx) >= len(i.gers) {
		return nil, db.ErrNotFound
	}
	return &l1infotreesync.L1InfoTreeLeaf{L1InfoTreeIndex: idx, GlobalExitRoot: i.gers[idx]}, nil
}

// ZZVerif_C16_FEP: the real FEP download loop (WaitForNewBlocks, getGERsFromIndex, populateGreatestInjectedGER over the generated
// binding's globalExitRootMap call) feeds the real processor. NL L1 info leaves; RUNS runs of the downloader (a restart between
// them) of NP polls each; at every poll the tip is arbitrary non-decreasing and the set of injected roots is an arbitrary
// superset of the previous one (the oracle may skip indexes). Afterwards the index query for every X returns a root that was
// injected as of the last processed block with index >= X, and fails only if there is none.
func ZZVerif_C16_FEP() {
	nl, np, runs := zzverif.Param("NL"), zzverif.Param("NP"), zzverif.Param("RUNS")
	ctx0 := context.Background()
	path := zzverif.TempDB("fep")
	ch := &zzFEPChain{salt: zzverif.Hash("salt"), emitted: -1}
	for i := 0; i < nl; i++ {
		ch.gers = append(ch.gers, common.Hash{9, byte(i + 1)})
	}
	prev := 0
	for j := 0; j < np*runs; j++ {
		t := zzverif.Int("tip", 0, 2*np*runs)
		zzverif.Assume(t >= prev)
		prev = t
		ch.tips = append(ch.tips, uint64(t))
		row := make([]bool, nl)
		for i := 0; i < nl; i++ {
			row[i] = zzverif.Bool("injected")
			if j > 0 && ch.inj[j-1][i] {
				zzverif.Assume(row[i])
			}
		}
		ch.inj = append(ch.inj, row)
	}
	rh := &sync.RetryHandler{RetryAfterErrorPeriod: time.Millisecond, MaxRetryAttemptsAfterError: 5}
	var p *processor
	for r := 0; r < runs; r++ {
		p = zzNewProcessor(path)
		ctx, cancel := context.WithCancel(ctx0)
		ch.cancel, ch.limit = cancel, (r+1)*np
		d, err := newDownloaderFEP(ch, common.Address{7}, &zzFEPL1Info{gers: ch.gers}, p, rh, big.NewInt(-2), time.Millisecond)
		zzverif.Assert("downloader created", err == nil)
		if err != nil {
			cancel()
			return
		}
		last, err := p.GetLastProcessedBlock(ctx0)
		zzverif.Assert("last processed block readable", err == nil)
		out := make(chan sync.EVMBlock, 64)
		d.Download(ctx, last+1, out)
		cancel()
		for more := true; more; {
			select {
			case b, ok := <-out:
				if !ok {
					more = false
					break
				}
				blk := sync.Block{Num: b.Num, Hash: b.Hash, Events: b.Events}
				zzverif.Assert("block processed", p.ProcessBlock(ctx0, blk) == nil)
				zzverif.Reach("block")
			default:
				more = false
			}
		}
	}
	for x := 0; x <= nl; x++ {
		got, err := p.GetFirstGERAfterL1InfoTreeIndex(ctx0, uint32(x))
		exists := false
		for i := x; i < nl; i++ {
			if ch.emitted >= 0 && ch.inj[ch.emitted][i] {
				exists = true
			}
		}
		if err == nil {
			i := int(got.L1InfoTreeIndex)
			zzverif.Assert("the root answered has index >= X and was injected as of the last processed block",
				i >= x && i < nl && ch.emitted >= 0 && ch.inj[ch.emitted][i] && got.GlobalExitRoot == ch.gers[i])
			zzverif.Reach("found")
		} else {
			zzverif.Assert("not found only when no injected root has index >= X", !exists && errors.Is(err, db.ErrNotFound))
			zzverif.Reach("notfound")
		}
	}
}
