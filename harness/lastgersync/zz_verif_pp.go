package lastgersync

import (
	"context"
	"errors"
	"math/big"
	"time"

	"github.com/0xPolygon/cdk-contracts-tooling/contracts/pp/l2-sovereign-chain/globalexitrootmanagerl2sovereignchain"
	"github.com/agglayer/aggkit/db"
	"github.com/agglayer/aggkit/internal/zzverif"
	"github.com/agglayer/aggkit/l1infotreesync"
	"github.com/agglayer/aggkit/sync"
	aggkittypes "github.com/agglayer/aggkit/types"
	ethereum "github.com/ethereum/go-ethereum"
	"github.com/ethereum/go-ethereum/common"
	"github.com/ethereum/go-ethereum/core/types"
)

// zzPPChain is the L2 node as the PP downloader sees it: a chain of blocks start+1..start+len(kind), block i holding no GER
// event, an insertion or a removal; the tip reported at the j-th poll is tips[j]; after the last poll the context is cancelled.
type zzPPChain struct {
	aggkittypes.BaseEthereumClienter
	addr   common.Address
	salt   common.Hash
	start  uint64
	nums   []uint64 // block numbers of the blocks that may hold an event (ascending); all other blocks hold none
	kind   []int
	ger    []common.Hash
	tips   []uint64
	polls  int
	head   uint64
	cancel context.CancelFunc
}

func (c *zzPPChain) header(n uint64) *types.Header {
	return &types.Header{Number: new(big.Int).SetUint64(n), ParentHash: c.salt, Time: n}
}

func (c *zzPPChain) HeaderByNumber(ctx context.Context, n *big.Int) (*types.Header, error) {
	if n == nil || n.Sign() < 0 { // "latest"
		if c.polls >= len(c.tips) {
			c.cancel()
			return nil, context.Canceled
		}
		c.head = c.tips[c.polls]
		c.polls++
		return c.header(c.head), nil
	}
	if n.Uint64() > c.head {
		return nil, ethereum.NotFound
	}
	return c.header(n.Uint64()), nil
}

func (c *zzPPChain) FilterLogs(ctx context.Context, q ethereum.FilterQuery) ([]types.Log, error) {
	if ctx.Err() != nil {
		return nil, context.Canceled
	}
	from, to := q.FromBlock.Uint64(), q.ToBlock.Uint64()
	var logs []types.Log
	for i, k := range c.kind {
		b := c.nums[i]
		if k == 0 || b < from || b > to || b > c.head {
			continue
		}
		sig := insertGEREventSignature
		if k == 2 {
			sig = removeGEREventSignature
		}
		logs = append(logs, types.Log{Address: c.addr, Topics: []common.Hash{sig, c.ger[i], {}}, BlockNumber: b, BlockHash: c.header(b).Hash()})
	}
	return logs, nil
}

type zzPPL1Info struct {
	L1InfoTreeQuerier
	lag     bool          // the L1 info syncer is behind: the first lookup of every root answers "not found"
	lookups []common.Hash // roots looked up so far
}

// the L1 info index of a root is carried in its first four bytes (any injective labelling would do)
func zzPPIndexOf(g common.Hash) uint32 {
	return uint32(g[0])<<24 | uint32(g[1])<<16 | uint32(g[2])<<8 | uint32(g[3])
}
func (i *zzPPL1Info) GetInfoByGlobalExitRoot(g common.Hash) (*l1infotreesync.L1InfoTreeLeaf, error) {
	seen := false
	for _, x := range i.lookups {
		if x == g {
			seen = true
		}
	}
	i.lookups = append(i.lookups, g)
	if i.lag && !seen {
		return nil, db.ErrNotFound
	}
	return &l1infotreesync.L1InfoTreeLeaf{GlobalExitRoot: g, L1InfoTreeIndex: zzPPIndexOf(g)}, nil
}

// ZZVerif_C16_PPDownload: the real PP download loop runs against a chain of NB blocks after block START, with NP polls that see
// arbitrary non-decreasing tips (several new blocks, or none, between two polls). Every block with a GER event at or below the
// last tip seen is handed over exactly once, in order, with the event's contents; nothing else is.
// The events are built by the downloader's real appender (buildAppender) over the generated contract binding.
func ZZVerif_C16_PPDownload() {
	nb, np := zzverif.Param("NB"), zzverif.Param("NP")
	start := uint64(zzverif.Param("START"))
	ctx, cancel := context.WithCancel(context.Background())
	defer cancel()
	ch := &zzPPChain{addr: common.Address{7}, salt: zzverif.Hash("salt"), start: start, cancel: cancel, head: start}
	// candidate tips: the start block, every block that may hold an event and, with FAR, blocks around a distance of 1000
	// (several blocks lie more than one query range ahead of the last fetched block)
	cands := []uint64{start}
	for i := 0; i < nb; i++ {
		n := start + 1 + uint64(i)
		if zzverif.Param("FAR") == 1 && i >= nb/2 {
			n = start + 1000 + uint64(i-nb/2) // the last block of the first query range and the blocks after it
		}
		ch.nums = append(ch.nums, n)
		ch.kind = append(ch.kind, zzverif.Int("kind", 0, 2))
		ch.ger = append(ch.ger, zzverif.Hash("ger"))
		cands = append(cands, n)
	}
	if zzverif.Param("FAR") == 1 {
		cands = append(cands, start+2500)
	}
	prev, pi := start, 0
	for j := 0; j < np; j++ {
		ti := zzverif.Int("tip", 0, len(cands)-1)
		zzverif.Assume(ti >= pi)
		ch.tips = append(ch.tips, cands[ti])
		prev, pi = cands[ti], ti
	}
	rh := &sync.RetryHandler{RetryAfterErrorPeriod: time.Millisecond, MaxRetryAttemptsAfterError: 5}
	d := &downloaderPP{l2GERAddr: ch.addr, l1InfoTreeSync: &zzPPL1Info{lag: zzverif.Param("LAG") == 1}, rh: rh}
	// the real appender of the downloader, over the generated contract binding (modelled symbolically, real natively)
	binding, err := globalexitrootmanagerl2sovereignchain.NewGlobalexitrootmanagerl2sovereignchain(ch.addr, nil)
	zzverif.Assert("contract binding", err == nil)
	if err != nil {
		return
	}
	appender := d.buildAppender(binding)
	d.EVMDownloaderImplementation = sync.NewEVMDownloaderImplementation("lastgersync", ch, big.NewInt(-2), time.Millisecond, appender,
		[]common.Address{ch.addr}, rh, nil)
	out := make(chan sync.EVMBlock, 64)
	// the driver starts the download at the block after the last processed one
	d.Download(ctx, start+1, out)
	var got []sync.EVMBlock
	for b := range out {
		got = append(got, b)
	}
	k := 0
	for i := 0; i < nb; i++ {
		b := ch.nums[i]
		if ch.kind[i] == 0 || b > prev {
			continue
		}
		ok := k < len(got)
		if ok {
			g := got[k]
			ok = g.Num == b && g.Hash == ch.header(b).Hash() && len(g.Events) == 1
			if ok {
				ev, isEv := g.Events[0].(*Event)
				ok = isEv && ev.GEREvent != nil && ev.GEREvent.BlockNum == b && ev.GEREvent.GlobalExitRoot == ch.ger[i] &&
					ev.GEREvent.IsRemove == (ch.kind[i] == 2) && (ch.kind[i] == 2 || ev.GEREvent.L1InfoTreeIndex == zzPPIndexOf(ch.ger[i]))
			}
		}
		zzverif.Assert("the k-th block with a GER event at or below the last tip seen is the k-th block handed over, with its event", ok)
		k++
	}
	zzverif.Assert("nothing else is handed over", len(got) == k)
	if k > 0 {
		zzverif.Reach("events")
	}
	zzverif.Reach("end")
	_ = errors.New
}
