package lastgersync

import (
	"context"
	"errors"

	"github.com/agglayer/aggkit/db"
	"github.com/agglayer/aggkit/internal/zzverif"
	"github.com/agglayer/aggkit/sync"
	ethCommon "github.com/ethereum/go-ethereum/common"
)

type zzRefRow struct {
	block uint64
	ger   ethCommon.Hash
	index uint32
}

func zzNewProcessor(path string) *processor {
	p, err := newProcessor(path)
	if err != nil {
		panic(err)
	}
	return p
}

// ZZVerif_C16_GERIndex: K L2 blocks with at most one GER event each (insertion via either event form, or removal), GERs taken
// from a pool of two distinct values, arbitrary L1 info indexes; optional reorg at block B (>0) and optional restart. The
// index query for an arbitrary X returns a live (injected, not removed, in a kept block) row with the least index >= X, and
// fails with "not found" exactly when there is none.
func ZZVerif_C16_GERIndex() {
	k := zzverif.Param("K")
	rb := uint64(zzverif.Param("B"))
	ctx := context.Background()
	path := zzverif.TempDB("ger")
	p := zzNewProcessor(path)
	pool := [2]ethCommon.Hash{zzverif.Hash("ger"), zzverif.Hash("ger")}
	zzverif.Assume(pool[0] != pool[1])
	// the events, in block order; the reference set of live roots is computed from the blocks that remain after the reorg
	type zzEv struct {
		block uint64
		kind  int
		ger   ethCommon.Hash
		index uint32
	}
	var evs []zzEv
	for i := 0; i < k; i++ {
		num := uint64(i + 1)
		blk := sync.Block{Num: num, Hash: zzverif.Hash("bh")}
		kind := zzverif.Int("kind", 0, 3)
		g := pool[zzverif.Int("which", 0, 1)]
		idx := zzverif.U32("idx")
		switch kind {
		case 1: // insertion reported as GERInfo (FEP downloader form)
			blk.Events = append(blk.Events, &Event{GERInfo: &GlobalExitRootInfo{GlobalExitRoot: g, L1InfoTreeIndex: idx}})
		case 2: // insertion reported as GEREvent (PP downloader form)
			blk.Events = append(blk.Events, &Event{GEREvent: &GEREvent{BlockNum: num, GlobalExitRoot: g, L1InfoTreeIndex: idx}})
		case 3: // removal
			blk.Events = append(blk.Events, &Event{GEREvent: &GEREvent{BlockNum: num, GlobalExitRoot: g, IsRemove: true}})
		}
		evs = append(evs, zzEv{num, kind, g, idx})
		zzverif.Assert("block processed", p.ProcessBlock(ctx, blk) == nil)
	}
	if rb > 0 {
		zzverif.Assert("reorg ok", p.Reorg(ctx, rb) == nil)
	}
	var live []zzRefRow
	undone := false // a removal in an orphaned block had deleted a root injected in a kept block
	for _, e := range evs {
		orphaned := rb > 0 && e.block >= rb
		switch {
		case e.kind == 1 || e.kind == 2:
			if !orphaned {
				live = append(live, zzRefRow{e.block, e.ger, e.index})
			}
		case e.kind == 3:
			kept := live[:0:0]
			for _, r := range live {
				if r.ger != e.ger {
					kept = append(kept, r)
				} else if orphaned {
					kept = append(kept, r)
					undone = true
				}
			}
			live = kept
		}
	}
	if zzverif.Param("UNDONE") == 1 {
		zzverif.Assume(undone) // known finding C16-2: the region where an orphaned removal had hit a surviving root
	} else {
		zzverif.Assume(!undone)
	}
	if zzverif.Bool("restart") {
		p = zzNewProcessor(path)
	}
	x := zzverif.U32("X")
	got, err := p.GetFirstGERAfterL1InfoTreeIndex(ctx, x)
	// reference: least index >= X among live rows
	found := false
	best := uint32(0)
	for _, r := range live {
		if r.index >= x && (!found || r.index < best) {
			found = true
			best = r.index
		}
	}
	if !found {
		zzverif.Assert("no live root with index >= X: not found", errors.Is(err, db.ErrNotFound))
		zzverif.Reach("notfound")
		return
	}
	zzverif.Reach("found")
	zzverif.Assert("a live root exists: query succeeds", err == nil)
	zzverif.Assert("index is the least index >= X", got.L1InfoTreeIndex == best && got.L1InfoTreeIndex >= x)
	isLive := false
	for _, r := range live {
		if r.index == got.L1InfoTreeIndex && r.ger == got.GlobalExitRoot {
			isLive = true
		}
	}
	zzverif.Assert("returned root was injected in a kept block and not removed since", isLive)
	lp, err := p.GetLastProcessedBlock(ctx)
	want := uint64(k)
	if rb > 0 && rb <= uint64(k) {
		want = rb - 1
	}
	zzverif.Assert("last processed block", err == nil && lp == want)
}

// ZZVerif_C07_GERFault: a committed block with an injected root, then a block (insertion or removal) during which the insert
// into table T fails (or, for a removal, the delete). Nothing of the failed block is recorded: the last processed block and
// every index query answer as before; the retried block then behaves as in a fault-free run.
func ZZVerif_C07_GERFault() {
	ctx := context.Background()
	t := zzverif.Param("T")      // 0: block row insert, 1: root row insert, 2: root row delete (removal)
	kind := zzverif.Param("KIND") // 1 insertion (GERInfo form), 2 insertion (GEREvent form), 3 removal of the first root
	path := zzverif.TempDB("ger")
	p := zzNewProcessor(path)
	g1, g2 := ethCommon.Hash(zzverif.Hash("ger")), ethCommon.Hash(zzverif.Hash("ger"))
	zzverif.Assume(g1 != g2)
	i1, i2 := zzverif.U32("idx"), zzverif.U32("idx")
	zzverif.Assume(p.ProcessBlock(ctx, sync.Block{Num: 1, Hash: zzverif.Hash("bh"), Events: []interface{}{&Event{GERInfo: &GlobalExitRootInfo{GlobalExitRoot: g1, L1InfoTreeIndex: i1}}}}) == nil)
	blk := sync.Block{Num: 2, Hash: zzverif.Hash("bh")}
	switch kind {
	case 1:
		blk.Events = []interface{}{&Event{GERInfo: &GlobalExitRootInfo{GlobalExitRoot: g2, L1InfoTreeIndex: i2}}}
	case 2:
		blk.Events = []interface{}{&Event{GEREvent: &GEREvent{BlockNum: 2, GlobalExitRoot: g2, L1InfoTreeIndex: i2}}}
	default:
		blk.Events = []interface{}{&Event{GEREvent: &GEREvent{BlockNum: 2, GlobalExitRoot: g1, IsRemove: true}}}
	}
	switch t {
	case 0:
		zzverif.FailInsert(p.database, "block", 0)
	case 1:
		zzverif.FailInsert(p.database, "imported_global_exit_root", 0)
	default:
		zzverif.FailDelete(p.database, "imported_global_exit_root")
	}
	err := p.ProcessBlock(ctx, blk)
	zzverif.ClearFaults(p.database, "block", "imported_global_exit_root")
	zzverif.Assert("the fault is reported", err != nil)
	if zzverif.Bool("restartAfterFault") {
		p = zzNewProcessor(path)
	}
	lp, e := p.GetLastProcessedBlock(ctx)
	zzverif.Assert("failed block not recorded", e == nil && lp == 1)
	got, e := p.GetFirstGERAfterL1InfoTreeIndex(ctx, 0)
	zzverif.Assert("the first root is still there and nothing of the failed block is", e == nil && got.GlobalExitRoot == g1 && got.L1InfoTreeIndex == i1)
	zzverif.Assert("retry succeeds", p.ProcessBlock(ctx, blk) == nil)
	lp, e = p.GetLastProcessedBlock(ctx)
	zzverif.Assert("retried block recorded", e == nil && lp == 2)
	q := zzverif.U32("X")
	res, e := p.GetFirstGERAfterL1InfoTreeIndex(ctx, q)
	// reference after the retry
	type row struct {
		g ethCommon.Hash
		i uint32
	}
	var live []row
	if kind != 3 {
		live = []row{{g1, i1}, {g2, i2}}
	}
	found, best := false, row{}
	for _, r := range live {
		if r.i >= q && (!found || r.i < best.i) {
			found, best = true, r
		}
	}
	if !found {
		zzverif.Assert("after the retry: not found iff no live root at or after X", errors.Is(e, db.ErrNotFound))
	} else {
		zzverif.Assert("after the retry: the least live index at or after X", e == nil && res.L1InfoTreeIndex == best.i && (res.GlobalExitRoot == best.g || i1 == i2))
	}
	zzverif.Reach("end")
}
