// Package zzverifeth holds the Go side of /verif's model of generated contract bindings' read calls: symbolically the engine
// replaces a binding's call method (one bytes32 argument, one uint256 result) by CallWord over the backend the binding was
// created with; natively the generated code runs and this function is not used.
package zzverifeth

import (
	"context"
	"math/big"

	ethereum "github.com/ethereum/go-ethereum"
	"github.com/ethereum/go-ethereum/accounts/abi/bind"
	"github.com/ethereum/go-ethereum/common"
)

// CallWord performs eth_call(to, selector ++ arg) on the backend and decodes the 32-byte answer as an unsigned integer.
func CallWord(backend bind.ContractCaller, to common.Address, sel [4]byte, arg [32]byte) (*big.Int, error) {
	data := make([]byte, 0, 36)
	data = append(data, sel[:]...)
	data = append(data, arg[:]...)
	out, err := backend.CallContract(context.Background(), ethereum.CallMsg{To: &to, Data: data}, nil)
	if err != nil {
		return nil, err
	}
	return new(big.Int).SetBytes(out), nil
}
