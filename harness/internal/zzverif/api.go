// Package zzverif is the harness API of /verif. Symbolically, every function here is intercepted by
// the engine (fresh symbols, assumptions, assertions). Natively (replay / translator validation) the
// values come from the JSON file named by VERIF_REPLAY.
package zzverif

import (
	"database/sql"
	"encoding/hex"
	"encoding/json"
	"fmt"
	"os"
	"strconv"
	"strings"
)

type AssumeFailed struct{}

var (
	loaded   bool
	values   map[string]any
	counters = map[string]int{}
	// Failures lists the names of assertions that failed natively.
	Failures []string
	// Observed is the list of observed values (translator validation).
	Observed []string
	// Defaulted counts nondet values that were not present in the replay vector.
	Defaulted int
)

func Reset() {
	loaded = false
	values = nil
	params = nil
	counters = map[string]int{}
	Failures = nil
	Notes = nil
	Observed = nil
	Defaulted = 0
}

func load() {
	if loaded {
		return
	}
	loaded = true
	if values == nil {
		values = map[string]any{}
	}
}

// Case is one native execution request (replay of a solver model or a validation vector).
type Case struct {
	Harness string         `json:"harness"`
	Values  map[string]any `json:"values"`
	Params  map[string]int `json:"params"`
}

var params map[string]int

// Param returns a concrete bound chosen by the check specification (not symbolic).
func Param(name string) int {
	v, ok := params[name]
	if !ok {
		panic("zzverif: missing param " + name)
	}
	return v
}

// ReplayMain runs the cases listed in the file named by VERIF_CASES and prints one result line per case.
func ReplayMain(harnesses map[string]func()) {
	p := os.Getenv("VERIF_CASES")
	if p == "" {
		return
	}
	b, err := os.ReadFile(p)
	if err != nil {
		panic(err)
	}
	var cases []Case
	if err := json.Unmarshal(b, &cases); err != nil {
		panic(err)
	}
	for i, c := range cases {
		f, ok := harnesses[c.Harness]
		if !ok {
			fmt.Printf("ZZVERIF-CASE {\"i\":%d,\"error\":\"unknown harness\"}\n", i)
			continue
		}
		Reset()
		values = c.Values
		params = c.Params
		skipped, failures, panicked := runCase(f)
		cleanupTemp()
		out := map[string]any{"i": i, "skipped": skipped, "failures": failures, "observed": Observed, "defaulted": Defaulted, "notes": Notes}
		if panicked != nil {
			out["panic"] = fmt.Sprint(panicked)
		}
		j, _ := json.Marshal(out)
		fmt.Printf("ZZVERIF-CASE %s\n", j)
	}
}

func runCase(f func()) (skipped bool, failures []string, panicked any) {
	defer func() {
		if r := recover(); r != nil {
			if _, ok := r.(AssumeFailed); ok {
				skipped = true
			} else {
				panicked = r
			}
			failures = Failures
		}
	}()
	f()
	return false, Failures, nil
}

func next(name string) (string, bool) {
	load()
	k := counters[name]
	counters[name] = k + 1
	v, ok := values[name+"#"+strconv.Itoa(k)]
	if !ok {
		Defaulted++
		return "0", false
	}
	switch x := v.(type) {
	case string:
		return x, true
	case float64:
		return strconv.FormatUint(uint64(x), 10), true
	case bool:
		if x {
			return "1", true
		}
		return "0", true
	}
	return fmt.Sprint(v), true
}

func nextU(name string, bits int) uint64 {
	s, _ := next(name)
	base := 10
	if strings.HasPrefix(s, "0x") {
		s = s[2:]
		base = 16
	}
	u, err := strconv.ParseUint(s, base, 64)
	if err != nil {
		panic(fmt.Sprintf("zzverif: bad value for %s: %q", name, s))
	}
	if bits < 64 {
		u &= (1 << uint(bits)) - 1
	}
	return u
}

func U64(name string) uint64 { return nextU(name, 64) }
func U32(name string) uint32 { return uint32(nextU(name, 32)) }
func U16(name string) uint16 { return uint16(nextU(name, 16)) }
func U8(name string) uint8   { return uint8(nextU(name, 8)) }
func I64(name string) int64  { return int64(nextU(name, 64)) }
func Bool(name string) bool  { return nextU(name, 8)&1 == 1 }

// Int returns a value in [lo, hi].
func Int(name string, lo, hi int) int {
	v := int(int64(nextU(name, 64)))
	if v < lo || v > hi {
		panic(AssumeFailed{})
	}
	return v
}

func nextBytes(name string, n int) []byte {
	s, ok := next(name)
	out := make([]byte, n)
	if !ok {
		return out
	}
	s = strings.TrimPrefix(s, "0x")
	if len(s)%2 == 1 {
		s = "0" + s
	}
	b, err := hex.DecodeString(s)
	if err != nil {
		panic(fmt.Sprintf("zzverif: bad hex for %s: %q", name, s))
	}
	// right-align (big endian number semantics)
	if len(b) >= n {
		copy(out, b[len(b)-n:])
	} else {
		copy(out[n-len(b):], b)
	}
	return out
}

// Hash returns 32 arbitrary bytes.
func Hash(name string) (h [32]byte) { copy(h[:], nextBytes(name, 32)); return }

// Addr returns 20 arbitrary bytes.
func Addr(name string) (a [20]byte) { copy(a[:], nextBytes(name, 20)); return }

// Bytes returns n arbitrary bytes (n concrete).
func Bytes(name string, n int) []byte { return nextBytes(name, n) }

// Assume discards the current execution when c is false.
func Assume(c bool) {
	if !c {
		panic(AssumeFailed{})
	}
}

// SameCommitment reports whether two 32-byte commitments are equal. Natively this is ==; symbolically the equality is decided
// under the stated collision-freeness of Keccak (equal hashes have equal inputs, recursively), which is what lets a check
// conclude "the commitment changes when a covered field changes".
func SameCommitment(a, b [32]byte) bool { return a == b }

// WhenBlocked registers f to run when the calling thread blocks on a channel receive. Natively f runs as a goroutine and must
// begin by receiving what the calling thread sends before it blocks; symbolically f is run inline at the blocked receive,
// which is then tried again (sequential, cooperative model of a two-party hand-shake).
func WhenBlocked(f func()) { go f() }

// InlineGo: from here on the engine runs every `go f(...)` of the code under check to completion at the go statement (one
// sequential schedule). For harnesses whose goroutines only fill buffered channels and return, so that the native concurrent
// run has the same outcome. Natively a no-op.
func InlineGo() {}

// Assert states the property.
func Assert(name string, c bool) {
	if !c {
		Failures = append(Failures, name)
	}
}

// Reach is a reachability witness: the engine reports whether some feasible path gets here.
func Reach(name string) {}

// Observe records a value for the differential translator validation.
func Observe(name string, v any) {
	Observed = append(Observed, fmt.Sprintf("%s=%v", name, v))
}

// Notes are free-form diagnostics recorded natively only (ignored by the engine).
var Notes []string

// Note records a diagnostic value natively; the engine ignores it.
func Note(name string, v any) { Notes = append(Notes, fmt.Sprintf("%s=%v", name, v)) }

var tempDirs []string

// TempDB returns the path of a fresh SQLite database file (natively in a temporary directory that is removed at the
// end of the case; symbolically a fresh store of the SQL model).
func TempDB(name string) string {
	d, err := os.MkdirTemp("", "zzverif")
	if err != nil {
		panic(err)
	}
	tempDirs = append(tempDirs, d)
	return d + "/" + name + ".sqlite"
}

func cleanupTemp() {
	for _, d := range tempDirs {
		os.RemoveAll(d)
	}
	tempDirs = nil
}

// SQLExecer is the part of *sql.DB used for fault injection.
type SQLExecer interface {
	Exec(query string, args ...any) (sql.Result, error)
}

// FailInsert makes the (n+1)-th INSERT into `table` counted from now (0 = the next one) fail. Natively this installs a
// counter table and two triggers (RAISE(ABORT)); symbolically it is a fault entry of the SQL model.
func FailInsert(db SQLExecer, table string, n int) {
	stmts := []string{
		`CREATE TABLE IF NOT EXISTS zz_fault_cnt (tbl TEXT PRIMARY KEY, n INTEGER)`,
		fmt.Sprintf(`INSERT OR REPLACE INTO zz_fault_cnt VALUES ('%s', 0)`, table),
		fmt.Sprintf(`CREATE TRIGGER zz_fault_%s BEFORE INSERT ON %s WHEN (SELECT n FROM zz_fault_cnt WHERE tbl='%s') = %d BEGIN SELECT RAISE(ABORT, 'zzverif injected fault'); END`, table, table, table, n),
		fmt.Sprintf(`CREATE TRIGGER zz_cnt_%s AFTER INSERT ON %s BEGIN UPDATE zz_fault_cnt SET n = n+1 WHERE tbl='%s'; END`, table, table, table),
	}
	for _, s := range stmts {
		if _, err := db.Exec(s); err != nil {
			panic(err)
		}
	}
}

// FailDelete makes every DELETE on `table` fail from now on.
func FailDelete(db SQLExecer, table string) {
	if _, err := db.Exec(fmt.Sprintf(`CREATE TRIGGER zz_faultdel_%s BEFORE DELETE ON %s BEGIN SELECT RAISE(ABORT, 'zzverif injected fault'); END`, table, table)); err != nil {
		panic(err)
	}
}

// ClearFaults removes every injected fault.
func ClearFaults(db SQLExecer, tables ...string) {
	for _, t := range tables {
		for _, s := range []string{"DROP TRIGGER IF EXISTS zz_fault_" + t, "DROP TRIGGER IF EXISTS zz_cnt_" + t, "DROP TRIGGER IF EXISTS zz_faultdel_" + t} {
			if _, err := db.Exec(s); err != nil {
				panic(err)
			}
		}
	}
}

// InsertionSort is the model of sort.Slice used by the engine (natively unused): it sorts positions 0..n-1 with the caller's
// less function and a swap supplied by the engine.
func InsertionSort(n int, less func(i, j int) bool, swap func(i, j int)) {
	for i := 1; i < n; i++ {
		for j := i; j > 0 && less(j, j-1); j-- {
			swap(j, j-1)
		}
	}
}
