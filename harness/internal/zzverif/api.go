// Package zzverif is the harness API of /verif. Symbolically, every function here is intercepted by
// the engine (fresh symbols, assumptions, assertions). Natively (replay / translator validation) the
// values come from the JSON file named by VERIF_REPLAY.
package zzverif

import (
	"encoding/hex"
	"encoding/json"
	"fmt"
	"os"
	"strconv"
	"strings"
)

type AssumeFailed struct{}

var (
	loaded   bool
	values   map[string]any
	counters = map[string]int{}
	// Failures lists the names of assertions that failed natively.
	Failures []string
	// Observed is the list of observed values (translator validation).
	Observed []string
	// Defaulted counts nondet values that were not present in the replay vector.
	Defaulted int
)

func Reset() {
	loaded = false
	values = nil
	params = nil
	counters = map[string]int{}
	Failures = nil
	Observed = nil
	Defaulted = 0
}

func load() {
	if loaded {
		return
	}
	loaded = true
	if values == nil {
		values = map[string]any{}
	}
}

// Case is one native execution request (replay of a solver model or a validation vector).
type Case struct {
	Harness string         `json:"harness"`
	Values  map[string]any `json:"values"`
	Params  map[string]int `json:"params"`
}

var params map[string]int

// Param returns a concrete bound chosen by the check specification (not symbolic).
func Param(name string) int {
	v, ok := params[name]
	if !ok {
		panic("zzverif: missing param " + name)
	}
	return v
}

// ReplayMain runs the cases listed in the file named by VERIF_CASES and prints one result line per case.
func ReplayMain(harnesses map[string]func()) {
	p := os.Getenv("VERIF_CASES")
	if p == "" {
		return
	}
	b, err := os.ReadFile(p)
	if err != nil {
		panic(err)
	}
	var cases []Case
	if err := json.Unmarshal(b, &cases); err != nil {
		panic(err)
	}
	for i, c := range cases {
		f, ok := harnesses[c.Harness]
		if !ok {
			fmt.Printf("ZZVERIF-CASE {\"i\":%d,\"error\":\"unknown harness\"}\n", i)
			continue
		}
		Reset()
		values = c.Values
		params = c.Params
		skipped, failures, panicked := runCase(f)
		out := map[string]any{"i": i, "skipped": skipped, "failures": failures, "observed": Observed, "defaulted": Defaulted}
		if panicked != nil {
			out["panic"] = fmt.Sprint(panicked)
		}
		j, _ := json.Marshal(out)
		fmt.Printf("ZZVERIF-CASE %s\n", j)
	}
}

func runCase(f func()) (skipped bool, failures []string, panicked any) {
	defer func() {
		if r := recover(); r != nil {
			if _, ok := r.(AssumeFailed); ok {
				skipped = true
			} else {
				panicked = r
			}
			failures = Failures
		}
	}()
	f()
	return false, Failures, nil
}

func next(name string) (string, bool) {
	load()
	k := counters[name]
	counters[name] = k + 1
	v, ok := values[name+"#"+strconv.Itoa(k)]
	if !ok {
		Defaulted++
		return "0", false
	}
	switch x := v.(type) {
	case string:
		return x, true
	case float64:
		return strconv.FormatUint(uint64(x), 10), true
	case bool:
		if x {
			return "1", true
		}
		return "0", true
	}
	return fmt.Sprint(v), true
}

func nextU(name string, bits int) uint64 {
	s, _ := next(name)
	base := 10
	if strings.HasPrefix(s, "0x") {
		s = s[2:]
		base = 16
	}
	u, err := strconv.ParseUint(s, base, 64)
	if err != nil {
		panic(fmt.Sprintf("zzverif: bad value for %s: %q", name, s))
	}
	if bits < 64 {
		u &= (1 << uint(bits)) - 1
	}
	return u
}

func U64(name string) uint64 { return nextU(name, 64) }
func U32(name string) uint32 { return uint32(nextU(name, 32)) }
func U16(name string) uint16 { return uint16(nextU(name, 16)) }
func U8(name string) uint8   { return uint8(nextU(name, 8)) }
func I64(name string) int64  { return int64(nextU(name, 64)) }
func Bool(name string) bool  { return nextU(name, 8)&1 == 1 }

// Int returns a value in [lo, hi].
func Int(name string, lo, hi int) int {
	v := int(int64(nextU(name, 64)))
	if v < lo || v > hi {
		panic(AssumeFailed{})
	}
	return v
}

func nextBytes(name string, n int) []byte {
	s, ok := next(name)
	out := make([]byte, n)
	if !ok {
		return out
	}
	s = strings.TrimPrefix(s, "0x")
	if len(s)%2 == 1 {
		s = "0" + s
	}
	b, err := hex.DecodeString(s)
	if err != nil {
		panic(fmt.Sprintf("zzverif: bad hex for %s: %q", name, s))
	}
	// right-align (big endian number semantics)
	if len(b) >= n {
		copy(out, b[len(b)-n:])
	} else {
		copy(out[n-len(b):], b)
	}
	return out
}

// Hash returns 32 arbitrary bytes.
func Hash(name string) (h [32]byte) { copy(h[:], nextBytes(name, 32)); return }

// Addr returns 20 arbitrary bytes.
func Addr(name string) (a [20]byte) { copy(a[:], nextBytes(name, 20)); return }

// Bytes returns n arbitrary bytes (n concrete).
func Bytes(name string, n int) []byte { return nextBytes(name, n) }

// Assume discards the current execution when c is false.
func Assume(c bool) {
	if !c {
		panic(AssumeFailed{})
	}
}

// Assert states the property.
func Assert(name string, c bool) {
	if !c {
		Failures = append(Failures, name)
	}
}

// Reach is a reachability witness: the engine reports whether some feasible path gets here.
func Reach(name string) {}

// Observe records a value for the differential translator validation.
func Observe(name string, v any) {
	Observed = append(Observed, fmt.Sprintf("%s=%v", name, v))
}
