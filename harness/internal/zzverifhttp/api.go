// Package zzverifhttp is the HTTP part of the harness API of /verif (kept apart from zzverif so that only the checks of the
// REST service load gin). Symbolically both functions are intercepted by the engine.
package zzverifhttp

import (
	"encoding/json"
	"net/http"
	"net/http/httptest"
	"net/url"

	"github.com/gin-gonic/gin"
)

var recorders = map[*gin.Context]*httptest.ResponseRecorder{}

// HTTPGet returns a gin context for a GET request with the given query parameters (key, value, key, value, ...).
func HTTPGet(kv ...string) *gin.Context {
	rec := httptest.NewRecorder()
	c, _ := gin.CreateTestContext(rec)
	vals := url.Values{}
	for i := 0; i+1 < len(kv); i += 2 {
		vals.Set(kv[i], kv[i+1])
	}
	c.Request = httptest.NewRequest(http.MethodGet, "/?"+vals.Encode(), nil)
	recorders[c] = rec
	return c
}

// HTTPResult returns the status code written to the context of HTTPGet and, for a 200 answer, decodes the JSON body into out
// (symbolically: the object handed to c.JSON, if it has out's type).
func HTTPResult(c *gin.Context, out any) int {
	rec := recorders[c]
	if rec == nil {
		return 0
	}
	if rec.Code == http.StatusOK {
		_ = json.Unmarshal(rec.Body.Bytes(), out)
	}
	return rec.Code
}
