package reorgdetector

import (
	"context"
	"time"

	"github.com/agglayer/aggkit/config/types"
	"github.com/agglayer/aggkit/internal/zzverif"
	aggkittypes "github.com/agglayer/aggkit/types"
)

// ZZVerif_C06_BusySubscriber: NT tracked blocks, the last K replaced. The subscriber (a syncer's driver) is busy - processing a
// block, backing off after an error, not started yet - for several check intervals before it looks at its notification
// channel (the subscription's own unbuffered channels are used, as in the node). The detection pass still delivers the
// notification: when it has finished, the subscriber has been told the first replaced block and has acknowledged.
func ZZVerif_C06_BusySubscriber() {
	nt := zzverif.Param("NT")
	k := zzverif.Param("K")
	ctx := context.Background()
	eth := &zzEth{failAt: -1}
	for i := range eth.salt {
		eth.salt[i] = zzverif.Hash("salt")
	}
	eth.finalized = uint64(zzverif.Int("finalized", 0, nt-k))
	zzLastDBPath = zzverif.TempDB("reorg")
	interval := 5 * time.Millisecond
	rd, err := New(eth, Config{DBPath: zzLastDBPath, FinalizedBlock: aggkittypes.FinalizedBlock, CheckReorgsInterval: types.Duration{Duration: interval}}, L1)
	zzverif.Assert("detector created", err == nil)
	sub, err := rd.Subscribe("syncer")
	zzverif.Assert("subscribed", err == nil)
	nums := make([]uint64, nt)
	for i := 0; i < nt; i++ {
		nums[i] = 1 + uint64(i)
		h := eth.canon(nums[i]).Hash()
		if i >= nt-k {
			h = zzverif.Hash("oldHash")
			zzverif.Assume(h != eth.canon(nums[i]).Hash())
		}
		zzverif.Assert("tracked", rd.AddBlockToTrack(ctx, "syncer", nums[i], h) == nil)
	}
	first := nums[nt-k]
	told := make(chan uint64, 1)
	zzverif.WhenBlocked(func() {
		time.Sleep(20 * interval) // busy with something else
		n := <-sub.ReorgedBlock
		told <- n
		sub.ReorgProcessed <- true
	})
	err = rd.detectReorgInTrackedList(ctx)
	zzverif.Assert("detection pass ok", err == nil)
	select {
	case n := <-told:
		zzverif.Assert("notified with the first replaced block", n == first)
		zzverif.Reach("served")
	default:
		zzverif.Assert("the busy subscriber was notified before the detection pass finished", false)
	}
}
