package reorgdetector

import (
	"context"
	"errors"
	"math/big"

	"github.com/agglayer/aggkit/internal/zzverif"
	aggkittypes "github.com/agglayer/aggkit/types"
	"github.com/ethereum/go-ethereum/common"
	"github.com/ethereum/go-ethereum/core/types"
)

// zzEth is the L1/L2 node: canonical block n has header canon(n) (arbitrary, fixed); the finalized block number is arbitrary.
type zzEth struct {
	aggkittypes.BaseEthereumClienter
	salt      [8]common.Hash
	finalized uint64
	failAt    int64 // block number whose header request fails (-1: none)
}

func (e *zzEth) canon(n uint64) *types.Header {
	return &types.Header{Number: new(big.Int).SetUint64(n), ParentHash: e.salt[n%8], Time: n}
}

func (e *zzEth) HeaderByNumber(ctx context.Context, number *big.Int) (*types.Header, error) {
	if number.Sign() < 0 {
		return e.canon(e.finalized), nil
	}
	if e.failAt >= 0 && number.Uint64() == uint64(e.failAt) {
		return nil, errors.New("rpc error")
	}
	return e.canon(number.Uint64()), nil
}

// ZZVerif_C06_Detect: a subscriber tracks NT blocks (numbers BASE+1.., some replaced on the canonical chain, some not); one
// detection pass runs. The subscriber is notified iff some tracked block was replaced, with the smallest replaced block number;
// afterwards memory and table hold exactly the tracked blocks below that number that are not (matching and finalized); when
// nothing was replaced nothing is notified and only finalized matching blocks are dropped. A restart (loading the table)
// rebuilds exactly the in-memory set.
func ZZVerif_C06_Detect() {
	nt := zzverif.Param("NT")
	ctx := context.Background()
	eth := &zzEth{failAt: -1}
	for i := range eth.salt {
		eth.salt[i] = zzverif.Hash("salt")
	}
	base := uint64(zzverif.Int("base", 0, 2))
	eth.finalized = uint64(zzverif.Int("finalized", 0, 6))
	zzLastDBPath = zzverif.TempDB("reorg")
	rd, err := New(eth, Config{DBPath: zzLastDBPath, FinalizedBlock: aggkittypes.FinalizedBlock}, L1)
	zzverif.Assert("detector created", err == nil)
	sub, err := rd.Subscribe("syncer")
	zzverif.Assert("subscribed", err == nil)
	// the subscriber side of the hand-shake, without goroutines: buffered channels, acknowledgements ready
	sub.ReorgedBlock = make(chan uint64, 8)
	sub.ReorgProcessed = make(chan bool, 8)
	for i := 0; i < 8; i++ {
		sub.ReorgProcessed <- true
	}
	replaced := make([]bool, nt)
	nums := make([]uint64, nt)
	for i := 0; i < nt; i++ {
		nums[i] = base + 1 + uint64(i)
		h := eth.canon(nums[i]).Hash()
		replaced[i] = zzverif.Bool("replaced")
		if replaced[i] {
			h = zzverif.Hash("oldHash")
			zzverif.Assume(h != eth.canon(nums[i]).Hash())
		}
		zzverif.Assert("tracked", rd.AddBlockToTrack(ctx, "syncer", nums[i], h) == nil)
	}
	if zzverif.Bool("restartBeforeDetection") {
		rd2, err := New(eth, Config{DBPath: rd.dbPathForVerif(), FinalizedBlock: aggkittypes.FinalizedBlock}, L1)
		zzverif.Assert("detector recreated", err == nil)
		zzverif.Assert("tracked blocks loaded", rd2.loadTrackedHeaders() == nil)
		zzverif.Assert("subscriber restored with its blocks", rd2.trackedBlocks["syncer"] != nil && rd2.trackedBlocks["syncer"].len() == nt)
		rd = rd2
		// the driver subscribes again after the detector has been started
		sub, err = rd.Subscribe("syncer")
		zzverif.Assert("subscribed again", err == nil && sub != nil)
		zzverif.Assert("subscribing again keeps the tracked blocks", rd.trackedBlocks["syncer"] != nil && rd.trackedBlocks["syncer"].len() == nt)
		sub.ReorgedBlock = make(chan uint64, 8)
		sub.ReorgProcessed = make(chan bool, 8)
		for i := 0; i < 8; i++ {
			sub.ReorgProcessed <- true
		}
	}
	err = rd.detectReorgInTrackedList(ctx)
	zzverif.Assert("detection pass ok", err == nil)
	first := -1
	for i := 0; i < nt; i++ {
		if replaced[i] {
			first = i
			break
		}
	}
	if first >= 0 {
		zzverif.Reach("reorg")
		zzverif.Assert("a replaced block was tracked: exactly one notification", len(sub.ReorgedBlock) == 1)
		if len(sub.ReorgedBlock) == 1 {
			zzverif.Assert("notified with the first replaced block", <-sub.ReorgedBlock == nums[first])
		}
	} else {
		zzverif.Reach("noreorg")
		zzverif.Assert("nothing replaced: no notification", len(sub.ReorgedBlock) == 0)
	}
	hl := rd.trackedBlocks["syncer"]
	fromDB, err := rd.getTrackedBlocks()
	zzverif.Assert("table readable", err == nil)
	dbl := fromDB["syncer"]
	for i := 0; i < nt; i++ {
		keep := (first < 0 || i < first) && !(nums[i] <= eth.finalized)
		_, e1 := hl.get(nums[i])
		zzverif.Assert("memory holds exactly the surviving tracked blocks", (e1 == nil) == keep)
		inDB := false
		if dbl != nil {
			_, e2 := dbl.get(nums[i])
			inDB = e2 == nil
		}
		zzverif.Assert("table holds exactly the surviving tracked blocks", inDB == keep)
	}
}

// ZZVerif_C06_StopDuringReorg: NT tracked blocks, the last K replaced; the detection pass notifies the subscriber and waits for
// its acknowledgement. At that moment - the subscriber has been told but has not rewound its store yet - the node stops: a new
// detector is opened on the same database. It still tracks every replaced block, so the reorg is detected and notified again
// after the restart (the subscriber's store is rewound then).
func ZZVerif_C06_StopDuringReorg() {
	nt := zzverif.Param("NT")
	k := zzverif.Param("K")
	ctx := context.Background()
	eth := &zzEth{failAt: -1}
	for i := range eth.salt {
		eth.salt[i] = zzverif.Hash("salt")
	}
	eth.finalized = uint64(zzverif.Int("finalized", 0, nt-k)) // the replaced blocks are not finalized
	zzLastDBPath = zzverif.TempDB("reorg")
	rd, err := New(eth, Config{DBPath: zzLastDBPath, FinalizedBlock: aggkittypes.FinalizedBlock}, L1)
	zzverif.Assert("detector created", err == nil)
	sub, err := rd.Subscribe("syncer")
	zzverif.Assert("subscribed", err == nil)
	sub.ReorgedBlock = make(chan uint64, 8)
	sub.ReorgProcessed = make(chan bool, 8)
	nums := make([]uint64, nt)
	for i := 0; i < nt; i++ {
		nums[i] = 1 + uint64(i)
		h := eth.canon(nums[i]).Hash()
		if i >= nt-k {
			h = zzverif.Hash("oldHash")
			zzverif.Assume(h != eth.canon(nums[i]).Hash())
		}
		zzverif.Assert("tracked", rd.AddBlockToTrack(ctx, "syncer", nums[i], h) == nil)
	}
	first := nums[nt-k]
	served := false
	zzverif.WhenBlocked(func() {
		n := <-sub.ReorgedBlock
		served = true
		zzverif.Assert("notified with the first replaced block", n == first)
		// the node stops here: what a restarted detector finds in the database
		rd2, err := New(eth, Config{DBPath: rd.dbPathForVerif(), FinalizedBlock: aggkittypes.FinalizedBlock}, L1)
		zzverif.Assert("detector recreated", err == nil)
		if err == nil {
			zzverif.Assert("tracked blocks loaded", rd2.loadTrackedHeaders() == nil)
			_, errS := rd2.Subscribe("syncer") // the driver subscribes again after the restart
			zzverif.Assert("subscribed again", errS == nil)
			hl := rd2.trackedBlocks["syncer"]
			for i := nt - k; i < nt; i++ {
				ok := hl != nil
				if ok {
					_, e := hl.get(nums[i])
					ok = e == nil
				}
				zzverif.Assert("a detector restarted before the acknowledgement still tracks the replaced block (the reorg is found again)", ok)
			}
		}
		sub.ReorgProcessed <- true
	})
	err = rd.detectReorgInTrackedList(ctx)
	zzverif.Assert("detection pass ok", err == nil)
	zzverif.Assert("the subscriber was notified", served)
	if served {
		zzverif.Reach("served")
	}
}
