package reorgdetector

// dbPathForVerif returns the path of the detector's database (kept by the harness: the detector itself does not store it).
func (rd *ReorgDetector) dbPathForVerif() string { return zzLastDBPath }

var zzLastDBPath string
